"""fresh-process judge: python -m mc.replay <module> <replay.json> -> last stdout line is JSON"""
import sys
import json
import importlib


def main():
    modname, path = sys.argv[1], sys.argv[2]
    with open(path) as f:
        doc = json.load(f)
    from . import engine
    r = engine._call((modname, doc["case"]))
    out = {"fails": [{"kind": f.get("kind"), "sig": f.get("sig")} for f in r.get("fails", [])]}
    if "harness_error" in r:
        out = {"error": r["harness_error"]}
    sys.stdout.write("\n" + json.dumps(out, default=str) + "\n")


if __name__ == "__main__":
    main()
