"""E1/E4 - exhaustive case runner, fresh-process judge, evidence writer, known-findings
matcher.

A check module provides
    PROP, LEVEL
    cases(tier, seed)  -> iterable of JSON-serialisable case descriptors (the complete
                          enumeration of the declared bounded space; never sampled)
    run_case(case)     -> dict {"n": executions, "nontrivial": [keys], "outcomes": [hashes],
                                "fails": [{"kind":..., "sig": {...}, "detail": ...}], ...extra counters}
    describe(tier)     -> dict with rule/assumptions/bounds text
`run_case` must be a pure function of the case descriptor (which contains the seed).
"""
import os
import sys
import json
import time
import hashlib
import itertools
import subprocess
import multiprocessing as mp

VERIF = os.path.dirname(os.path.dirname(os.path.abspath(__file__)))
NPROC = int(os.environ.get("VERIF_NPROC", "0")) or min(16, os.cpu_count() or 1)


def jhash(obj) -> str:
    return hashlib.sha256(json.dumps(obj, sort_keys=True, default=str).encode()).hexdigest()[:16]


_pool = None


def _init_worker():
    import signal
    signal.signal(signal.SIGINT, signal.SIG_IGN)
    try:
        import resource
        lim = int(os.environ.get("VERIF_WORKER_AS_GB", "6")) << 30
        resource.setrlimit(resource.RLIMIT_AS, (lim, lim))      # a runaway execution fails with MemoryError instead of taking the box down
    except Exception:
        pass
    devnull = os.open(os.devnull, os.O_WRONLY)
    os.dup2(devnull, 1)
    os.dup2(devnull, 2)


def pool():
    global _pool
    if _pool is None:
        ctx = mp.get_context("fork")
        # one task per worker process: every case starts in a fresh fork of this (never-executing) parent, so that state an
        # implementation might keep at class or module level cannot leak from one case into another - a failure then always
        # reproduces in the fresh-process judge
        _pool = ctx.Pool(NPROC, initializer=_init_worker, maxtasksperchild=1)
    return _pool


def close_pool():
    global _pool
    if _pool is not None:
        _pool.terminate()
        _pool.join()
        _pool = None


def _call(args):
    modname, case = args
    import importlib
    mod = importlib.import_module(modname)
    from . import harness as _h
    try:
        r = mod.run_case(case)
    except _h.HangAbort as e:       # TLExport itself did not return (watchdog): a finding, the rest of the case is not executed
        return {"n": len(e.infos), "fails": [{"kind": "execution_does_not_terminate", "sig": {"case": case},
                                              "detail": f"run() did not return within {_h.RUN_TIMEOUT_S} s in {len(e.infos)} executions of this case "
                                                        f"(the remaining executions of the case were skipped); first: {e.infos[0]}"}]}
    except BaseException as e:      # a crash of the harness itself: never a finding
        import traceback
        return {"n": 0, "harness_error": f"{type(e).__name__}: {e}\n{traceback.format_exc(limit=8)}", "case": case}
    return r


def pmap(modname, cases, chunksize=1):
    cases = list(cases)
    if NPROC == 1 or len(cases) <= 1:
        for c in cases:
            yield c, _call((modname, c))
        return
    it = pool().imap(_call, ((modname, c) for c in cases), chunksize)
    for c, r in zip(cases, it):
        yield c, r


class Stats:
    def __init__(self):
        self.cases = 0
        self.evaluations = 0
        self.nontrivial = set()
        self.nontrivial_n = 0     # cases that are distinct by construction (counted, not stored)
        self.outcomes = set()
        self.fails = []
        self.extra = {}
        self.samples = []
        self.harness_errors = []
        self.info = {}

    def n_nontrivial(self):
        return len(self.nontrivial) + self.nontrivial_n

    def add(self, case, r):
        self.cases += 1
        if "harness_error" in r:
            self.harness_errors.append((case, r["harness_error"]))
            return
        self.evaluations += r.get("n", 1)
        self.nontrivial.update(r.get("nontrivial", ()))
        self.nontrivial_n += r.get("nontrivial_n", 0)
        self.outcomes.update(r.get("outcomes", ()))
        for f in r.get("fails", ()):
            f = dict(f)
            f.setdefault("case", case)
            self.fails.append(f)
        for k, v in r.get("count", {}).items():
            self.extra[k] = self.extra.get(k, 0) + v
        for k, v in r.get("max", {}).items():
            self.extra[k] = max(self.extra.get(k, 0), v)
        for k, v in r.get("info", {}).items():
            self.info.setdefault(k, [])
            if v not in self.info[k] and len(self.info[k]) < 40:
                self.info[k].append(v)
        if "sample" in r and len(self.samples) < 6:
            self.samples.append(r["sample"])


def load_known(prop):
    p = os.path.join(VERIF, "known_findings.json")
    if not os.path.exists(p):
        return []
    with open(p) as f:
        doc = json.load(f)
    return [e for e in doc.get("findings", []) if e.get("property") == prop and e.get("status") == "open"]


def match_known(known, fail):
    sig = fail.get("sig", {})
    for e in known:
        if fail.get("kind") not in e.get("failure", [fail.get("kind")]):
            continue
        ok = True
        for k, v in e.get("match", {}).items():
            sv = sig.get(k, None)
            if isinstance(v, list):
                if sv not in v:
                    ok = False
            elif sv != v:
                ok = False
        if ok:
            return e
    return None


def write_replay(prop, fail, seed, tier):
    d = os.path.join(VERIF, "replays")
    os.makedirs(d, exist_ok=True)
    doc = {"property": prop, "seed": seed, "tier": tier, "case": fail["case"], "kind": fail.get("kind"),
           "sig": fail.get("sig"), "detail": fail.get("detail"), "sub": fail.get("sub")}
    name = f"{prop}-{jhash([fail['case'], fail.get('kind'), fail.get('sig')])}.json"
    path = os.path.join(d, name)
    with open(path, "w") as f:
        json.dump(doc, f, indent=1, default=str)
    return path


def replay_in_fresh_process(modname, path, timeout=600):
    """re-executes the recorded case in a fresh interpreter; returns the list of
    failure signatures it produced (judge of every violation)"""
    env = dict(os.environ)
    env["PYTHONHASHSEED"] = "0"
    env["VERIF_NPROC"] = "1"
    p = subprocess.run([sys.executable, "-m", "mc.replay", modname, path], cwd=VERIF, env=env,
                       stdout=subprocess.PIPE, stderr=subprocess.PIPE, timeout=timeout)
    try:
        return json.loads(p.stdout.decode().strip().splitlines()[-1])
    except Exception:
        return {"error": p.stderr.decode(errors="replace")[-2000:], "rc": p.returncode}


def fail_key(f):
    return jhash([f.get("kind"), f.get("sig")])


def run_check(mod, tier, seed, replay=None, max_judged=int(os.environ.get("VERIF_MAX_JUDGED", "6"))):
    """drives one check; returns the process exit status"""
    prop = mod.PROP
    modname = mod.__name__
    t0 = time.time()
    from . import harness
    if replay:
        with open(replay) as f:
            doc = json.load(f)
        r = _call((modname, doc["case"]))
        fails = r.get("fails", [])
        print(json.dumps({"fails": [{"kind": f.get("kind"), "sig": f.get("sig"), "detail": f.get("detail")} for f in fails],
                          "harness_error": r.get("harness_error")}, indent=1, default=str))
        want = jhash([doc.get("kind"), doc.get("sig")])
        hit = [f for f in fails if fail_key(f) == want]
        if hit:
            print(f"VIOLATION property={prop} replay={replay}")
            return 1
        print("replay: the recorded violation does not occur on this tree")
        return 0

    desc = mod.describe(tier)
    st = Stats()
    cap_s = float(os.environ.get("VERIF_CAP_S", desc.get("cap_s", 0)) or 0)
    capped = False
    all_cases = list(mod.cases(tier, seed))
    harness.load()          # import only (nothing is executed in this process); the forked workers inherit the modules
    from . import scen as _scen  # noqa - pre-import the models too
    done = 0
    for case, r in pmap(modname, all_cases, desc.get("chunksize", 1)):
        st.add(case, r)
        done += 1
        if cap_s and time.time() - t0 > cap_s and done < len(all_cases):
            capped = True
            close_pool()
            break
    if hasattr(mod, "finish"):
        # cross-case oracles (differential comparisons across cases) run in the parent
        mod.finish(st, tier, seed)
    close_pool()

    if st.harness_errors:
        for case, err in st.harness_errors[:3]:
            print(f"HARNESS-ERROR property={prop} case={json.dumps(case, default=str)[:300]}\n{err}", file=sys.stderr)
        write_evidence(mod, desc, st, tier, seed, t0, capped, violations=0, harness_errors=len(st.harness_errors))
        return 2

    if os.environ.get("VERIF_DUMP_FAILS"):
        with open(os.environ["VERIF_DUMP_FAILS"], "w") as f:
            json.dump(st.fails, f, indent=1, default=str)
    known = load_known(prop)
    printed_known = set()
    violations = []
    groups = {}
    for f in st.fails:
        groups.setdefault(fail_key(f), []).append(f)
    unjudged = 0
    for key, fl in groups.items():
        f = fl[0]
        e = match_known(known, f)
        if e is not None:
            if e["id"] not in printed_known:
                printed_known.add(e["id"])
                print(f"KNOWN-FINDING: property={prop} {e['id']} {e['what']}")
            continue
        if len(violations) >= max_judged:
            unjudged += len(fl)
            continue
        path = write_replay(prop, f, seed, tier)
        if getattr(mod, "JUDGE", True):
            sigs = []
            for _ in range(2):
                r = replay_in_fresh_process(modname, path)
                sigs.append(sorted(fail_key(x) for x in r.get("fails", [])) if "fails" in r else r)
            if sigs[0] != sigs[1] or not isinstance(sigs[0], list) or key not in sigs[0]:
                print(f"HARNESS-ERROR property={prop} failure did not reproduce identically in two fresh processes: "
                      f"{path} {sigs}", file=sys.stderr)
                write_evidence(mod, desc, st, tier, seed, t0, capped, violations=0, harness_errors=1)
                return 2
        violations.append((f, path, len(fl)))

    for f, path, cnt in violations:
        print(f"VIOLATION property={prop} replay={path}")
        print(f"  kind={f.get('kind')} sig={json.dumps(f.get('sig'), default=str)[:400]} occurrences={cnt}")
        if f.get("detail"):
            print("  " + str(f["detail"])[:600].replace("\n", "\n  "))
    if unjudged:
        print(f"  (+{unjudged} further failing executions in {len(groups) - len(violations) - len(printed_known)} more groups not judged)")

    nv = len(violations)
    ok_vac = write_evidence(mod, desc, st, tier, seed, t0, capped, violations=nv, known=sorted(printed_known))
    dt = time.time() - t0
    print(f"{prop} {tier}: cases={st.cases} evaluations={st.evaluations} nontrivial={st.n_nontrivial()} "
          f"outcomes={len(st.outcomes)} violations={nv} known={len(printed_known)} wall={dt:.1f}s"
          + (" CAPPED" if capped else ""))
    if nv:
        return 1
    if not ok_vac:
        print(f"HARNESS-ERROR property={prop} vacuous exploration: nontrivial={st.n_nontrivial()} "
              f"below the check's minimum {desc.get('min_nontrivial', 2)}", file=sys.stderr)
        return 2
    return 0


def write_evidence(mod, desc, st, tier, seed, t0, capped, violations, known=(), harness_errors=0):
    from . import harness
    cov = {
        "evaluations": st.evaluations,
        "distinct_nontrivial": st.n_nontrivial(),
        "distinct_outcomes": len(st.outcomes),
        "cases": st.cases,
        "rule": desc["rule"],
        "samples": st.samples[:5] or [{"note": "no sample recorded"}],
        "exhaustive": bool(desc.get("exhaustive", False)) and not capped,
        "bounds": desc.get("bounds", {}),
        "capped": capped,
        "tree": harness.src_fingerprint(),
        "known_findings_reported": list(known),
        "harness_errors": harness_errors,
    }
    for k, v in st.extra.items():
        cov[k] = v
    if st.info:
        cov["info"] = st.info
    if mod.LEVEL == "model_checking":
        cov.setdefault("states", st.extra.get("states", 0))
        cov.setdefault("transitions", st.extra.get("transitions", 0))
        cov.setdefault("traces_validated_against_impl", st.extra.get("traces_validated_against_impl", st.evaluations))
    vp = os.path.join(VERIF, ".state", "validation.json")
    if os.path.exists(vp):
        try:
            with open(vp) as f:
                v = json.load(f)
            cov["model_validation"] = {k: v[k] for k in v if not k.endswith("_classes") and not k.endswith("_skipped")}
        except Exception:
            pass
    doc = {"property_id": mod.PROP, "tier": tier, "seed": seed, "level": mod.LEVEL, "coverage": cov,
           "assumptions": desc.get("assumptions", []), "wall_s": round(time.time() - t0, 2), "violations": violations}
    d = os.path.join(VERIF, "evidence")
    os.makedirs(d, exist_ok=True)
    with open(os.path.join(d, mod.PROP + ".json"), "w") as f:
        json.dump(doc, f, indent=1, default=str)
    # evidence/<id>.json describes the LAST run; a copy per tier is kept next to it so that a quick run does not wipe the
    # record of the last thorough one
    os.makedirs(os.path.join(d, "by_tier"), exist_ok=True)
    with open(os.path.join(d, "by_tier", f"{mod.PROP}.{tier}.json"), "w") as f:
        json.dump(doc, f, indent=1, default=str)
    return st.n_nontrivial() >= desc.get("min_nontrivial", 2)


def product(**dims):
    keys = list(dims)
    for vals in itertools.product(*[dims[k] for k in keys]):
        yield dict(zip(keys, vals))


def deviations(default: dict, alternatives: dict, k: int):
    """every scenario differing from `default` in at most k dimensions (k iterated
    0..k, simplest first)"""
    dims = list(alternatives)
    for n in range(k + 1):
        for chosen in itertools.combinations(dims, n):
            for vals in itertools.product(*[alternatives[d] for d in chosen]):
                sc = dict(default)
                sc.update(dict(zip(chosen, vals)))
                yield n, sc
