"""C09 - the export depends only on which secrets are supplied, not on how.

deviations(k<=2) from {key-log file, LF, lower-case hex, original order, no decoration} over line
permutations, line ends, inserted comment/blank/unrelated/duplicate lines at every position, hex case,
and delivery (file, decryption-secrets blocks at every position, every split over 2-3 blocks, file+DSB
splits, DSB only without -s from several working directories).  Oracle: byte-identical output file."""
import itertools
import os
import tempfile
from .. import harness, scen, engine
from ..model import cap, tls, pcapio

PROP = "C09"
LEVEL = "exploration"

BASES = ["tls12", "tls13", "quic", "two", "two_quic"]


def describe(tier):
    return {
        "rule": "bases: TLS 1.2 (1 line), TLS 1.3 (5 lines), QUIC (4 lines), TLS 1.2 + TLS 1.3 in one capture (6 lines), two QUIC connections one after the other (8 lines); container little- or big-endian; also commented-out key lines, early-traffic / early-exporter lines of the same client random, a DSB in front of the interface block, one DSB per connection, long key logs with the capture's lines across 4096..262144 characters (one DSB of ~470 kB). k=1: every "
                "alternative of every dimension (all line permutations; CRLF / no final newline; comment, blank, unrelated, "
                "duplicate line at every position; 4 hex-case variants; DSB at every packet position, every split into 2 or 3 DSBs, "
                "additional DSB without secrets, every file/DSB split, DSB only without -s from 3 working directories); k=2: all "
                "pairs of alternatives (permutations restricted to 6 representatives" + (" in the quick tier" if tier == "quick" else "") +
                "). non-trivial: a variant whose output is byte-identical to the base output and exports data; distinct = distinct variant",
        "exhaustive": True,
        "bounds": {"deviations": 2},
        "min_nontrivial": 500,
        "assumptions": [
            "'unrelated' lines are lines of other connections (different client random) or, for TLS 1.3/QUIC, a further label "
            "(EARLY_EXPORTER_SECRET) of the same connection, as real key logs contain",
            "QUIC bases use DSBs only before the first packet, as the property says",
            "DSB-only runs (no -s) are executed in-process with the working directory changed and re-judged through the CLI",
        ],
    }


def base_capture(name, seed):
    flows = []
    if name in ("tls12", "two"):
        flows.append(scen.tls_flow({"version": tls.TLS12, "suite": 0xC02F, "history": [("c", 30), ("s", 50)]}, seed, 0))
    if name in ("tls13", "two"):
        flows.append(scen.tls_flow({"version": tls.TLS13, "suite": 0x1302, "history": [("c", 31), ("s", 51)]}, seed, 1))
    if name == "quic":
        flows.append(scen.quic_flow({"suite": 0x1301}, seed, 2))
    if name == "two_quic":
        flows.append(scen.quic_flow({"suite": 0x1301, "script": [("c", [(0, 20)]), ("s", [(0, 30)])]}, seed, 2))
        flows.append(scen.quic_flow({"suite": 0x1303, "script": [("c", [(0, 21)]), ("s", [(0, 31)])]}, seed, 3))
    ends = {f.id: f.ends for f in flows}
    if name == "two_quic":
        pkts = cap.stamp([p for f in flows for p in f.pkts], ends)      # one connection after the other
    else:
        pkts = cap.stamp(scen.round_robin([f.pkts for f in flows]), ends)
    lines = []
    for f in flows:
        lines += f.keylog()
    return flows, pkts, lines


def alternatives(name, lines, npkts, tier, for_pairs=False):
    """dimension -> list of alternative values (each JSON-serialisable)"""
    L = len(lines)
    alts = {"container": ["pcapng_be"]}        # the capture (and every DSB in it) in big-endian byte order
    perms = [list(p) for p in itertools.permutations(range(L))][1:]
    if for_pairs and (tier == "quick" or L > 5):
        reps = [list(range(L))[::-1]] + [list(range(i, L)) + list(range(i)) for i in range(1, L)]
        perms = [p for i, p in enumerate(reps) if p != list(range(L)) and p not in reps[:i]][:6]
    if L > 1:
        alts["order"] = perms
    alts["eol"] = ["crlf", "no_final_newline", "cr_only_last"]
    ins = []
    kinds = ["comment", "blank", "other_cr", "other_cr_exporter", "duplicate", "commented_key_line", "commented_key_line_tight"]
    if name != "tls12":
        kinds.append("early_exporter_same_cr")
        kinds.append("client_early_traffic_same_cr")
    for kind in kinds:
        for pos in range(L + 1):
            ins.append([kind, pos])
    alts["insert"] = ins
    alts["case"] = ["upper_cr", "upper_secret", "upper_both", "mixed"]
    dl = []
    tls_base = name not in ("quic", "two_quic")
    positions = list(range(npkts + 1)) if tls_base else [0]
    for pos in positions:
        dl.append({"kind": "dsb", "at": pos})
    for a in range(1, L):
        dl.append({"kind": "dsb_split", "cuts": [a]})
        for b in range(a + 1, L):
            dl.append({"kind": "dsb_split", "cuts": [a, b]})
    dl.append({"kind": "dsb_before_idb"})
    if name == "two_quic":
        dl.append({"kind": "dsb_per_connection"})
    dl.append({"kind": "file_plus_empty_dsb", "payload": ""})
    dl.append({"kind": "file_plus_empty_dsb", "payload": "# keys\n"})
    for r in range(1, L):
        for sub in itertools.combinations(range(L), r):
            dl.append({"kind": "file_dsb", "in_dsb": list(sub)})
    for cwd in ("repo", "root", "tmp"):
        dl.append({"kind": "dsb_only", "cwd": cwd})
    if not for_pairs:
        # long key logs: this capture's lines across the character offsets readers like to chunk at
        for b in (4096, 8192, 65536, 131072, 196608, 262144):
            dl.append({"kind": "big_file", "boundary": b})
        dl.append({"kind": "big_dsb", "boundary": 65536})
        dl.append({"kind": "big_dsb", "boundary": 131072})
        dl.append({"kind": "big_dsb", "boundary": 393216})          # one block of ~470 kB: larger than the interface's snap length + 64 KiB
    alts["delivery"] = dl
    return alts


def render(lines, var):
    """apply order / insert / case / eol to the list of lines -> (list of text lines, eol style)"""
    ls = list(lines)
    if "order" in var:
        ls = [ls[i] for i in var["order"]]
    if "case" in var:
        out = []
        for i, l in enumerate(ls):
            lab, cr, sec = l.split(" ")
            c = var["case"]
            if c in ("upper_cr", "upper_both"):
                cr = cr.upper()
            if c in ("upper_secret", "upper_both"):
                sec = sec.upper()
            if c == "mixed":
                cr = "".join(ch.upper() if k % 2 else ch for k, ch in enumerate(cr))
                sec = "".join(ch.upper() if k % 3 == 0 else ch for k, ch in enumerate(sec))
            out.append(f"{lab} {cr} {sec}")
        ls = out
    if "insert" in var:
        kind, pos = var["insert"]
        other = "ab" * 32
        new = {"comment": "# SSL/TLS secrets log file, generated by NSS", "blank": "",
               "other_cr": f"CLIENT_RANDOM {other} {'cd' * 48}", "other_cr_exporter": f"EXPORTER_SECRET {other} {'ef' * 32}",
               "duplicate": ls[min(pos, len(ls) - 1)],
               # a key line that was commented out (an outdated secret for the same client random), with and without a blank
               "commented_key_line": "# " + (lambda l: " ".join(l.split(" ")[:2] + ["5a" * (len(l.split(" ")[2]) // 2)]))(ls[min(pos, len(ls) - 1)]),
               "commented_key_line_tight": "#" + (lambda l: " ".join(l.split(" ")[:2] + ["a5" * (len(l.split(" ")[2]) // 2)]))(ls[min(pos, len(ls) - 1)]),
               "client_early_traffic_same_cr": "CLIENT_EARLY_TRAFFIC_SECRET %s %s" % (
                   ([l for l in ls if not l.upper().startswith("CLIENT_RANDOM")] or ls)[0].split(" ")[1], "34" * 32),
               "early_exporter_same_cr": "EARLY_EXPORTER_SECRET %s %s" % (
                   ([l for l in ls if not l.upper().startswith("CLIENT_RANDOM")] or ls)[0].split(" ")[1], "12" * 32)}[kind]
        ls = ls[:pos] + [new] + ls[pos:]
    return ls


def to_text(ls, eol):
    if eol == "crlf":
        return "\r\n".join(ls) + "\r\n"
    if eol == "no_final_newline":
        return "\n".join(ls)
    if eol == "cr_only_last":
        return "\n".join(ls) + "\r\n"
    return "\n".join(ls) + "\n"


def execute(pkts, lines, var, judge_cli=False):
    """returns harness Result"""
    eol = var.get("eol")
    dl = var.get("delivery", {"kind": "file"})
    ls = render(lines, var)
    items = cap.to_items(pkts)
    keyfile = None
    cwd = None
    pre = []
    k = dl["kind"]
    if k == "file":
        keyfile = to_text(ls, eol)
    elif k == "dsb":
        items.insert(dl["at"], pcapio.dsb(to_text(ls, eol)))
    elif k == "dsb_before_idb":
        pre = [to_text(ls, eol)]
    elif k == "dsb_per_connection":
        # the lines of each connection travel in a DSB of their own, placed directly before that connection's first packet
        crs = []
        for l in ls:
            cr = l.split(" ")[1].lower() if len(l.split(" ")) == 3 else None
            if cr and cr not in crs:
                crs.append(cr)
        first_pkt = {}
        for i, p in enumerate(pkts):
            first_pkt.setdefault(p.conn, i)
        order = sorted(first_pkt.values())
        # connection k (in capture order) owns the k-th distinct client random in the base log order
        base_crs = []
        for l in lines:
            cr = l.split(" ")[1].lower()
            if cr not in base_crs:
                base_crs.append(cr)
        for pos, cr in sorted(zip(order, base_crs), reverse=True):
            block = [l for l in ls if len(l.split(" ")) == 3 and l.split(" ")[1].lower() == cr]
            other = [l for l in ls if not (len(l.split(" ")) == 3 and l.split(" ")[1].lower() in base_crs)]
            items.insert(pos, pcapio.dsb(to_text(block + (other if pos == order[0] else []), eol)))
    elif k == "dsb_split":
        cuts = [0] + dl["cuts"] + [len(ls)]
        blocks = [pcapio.dsb(to_text(ls[cuts[i]:cuts[i + 1]], eol)) for i in range(len(cuts) - 1)]
        items = blocks + items
    elif k == "file_plus_empty_dsb":
        keyfile = to_text(ls, eol)
        items.insert(0, pcapio.dsb(dl["payload"]))
    elif k == "file_dsb":
        # the lines with index in_dsb (of the rendered list, clipped) travel in a DSB, the rest in the file
        idx = [i for i in dl["in_dsb"] if i < len(ls)]
        items.insert(0, pcapio.dsb(to_text([ls[i] for i in idx], eol)))
        keyfile = to_text([l for i, l in enumerate(ls) if i not in idx], eol)
    elif k in ("big_file", "big_dsb"):
        # a long key log of other sessions' lines; this capture's lines lie across character offset `boundary` (the first of
        # them starts 40 characters before it)
        sep = "\r\n" if eol == "crlf" else "\n"
        filler, n = [], 0
        while True:
            l = "CLIENT_RANDOM %064x %096x" % (0xF00D0000 + n, 0xABCD0000 + n)
            if sum(len(x) + len(sep) for x in filler) + len(l) + len(sep) > dl["boundary"] - 40 - 2 - len(sep):
                break
            filler.append(l)
            n += 1
        used = sum(len(x) + len(sep) for x in filler)
        filler.append("#" + "-" * (dl["boundary"] - 40 - used - 1 - len(sep)))       # comment line that makes the offset exact
        tail = ["CLIENT_RANDOM %064x %096x" % (0xBEEF0000 + i, 0x12340000 + i) for i in range(dl["boundary"] // 900)]
        text = sep.join(filler + ls + tail) + sep
        assert text.index(ls[0]) == dl["boundary"] - 40, (text.index(ls[0]), dl["boundary"])
        if k == "big_file":
            keyfile = text
        else:
            items.insert(0, pcapio.dsb(text))
    elif k == "dsb_only":
        items.insert(0, pcapio.dsb(to_text(ls, eol)))
        cwd = {"repo": harness.SRC, "root": "/", "tmp": None}[dl["cwd"]]
    data = pcapio.write_pcapng(items, endian=">" if var.get("container") == "pcapng_be" else "<", pre_idb_raw=[pcapio.dsb(t) for t in pre],
                               snaplen=262144)
    if judge_cli:
        return harness.run_cli(data, keyfile, cwd=cwd)
    return harness.run_tlexport(data, keyfile, cwd=cwd)


def cases(tier, seed):
    for b in BASES:
        flows, pkts, lines = base_capture(b, seed)
        alts = alternatives(b, lines, len(pkts), tier)
        yield {"base": b, "d1": None, "seed": seed, "tier": tier}
        for d1, vals in alts.items():
            chunk = 24
            for i in range(0, len(vals), chunk):
                yield {"base": b, "d1": d1, "lo": i, "hi": min(len(vals), i + chunk), "seed": seed, "tier": tier}


def run_case(case):
    harness.load()
    seed, tier, b = case["seed"], case["tier"], case["base"]
    flows, pkts, lines = base_capture(b, seed)
    base = execute(pkts, lines, {})
    fails, nontriv, outcomes = [], [], set()
    n = 1
    try:
        an = scen.analyse(base)
    except scen.ExportError as e:
        return {"n": 1, "fails": [{"kind": "base_" + e.kind, "sig": {"base": b}, "detail": e.detail}]}
    if not any(fr.payload for _, fr in an["packets"]):
        return {"n": 1, "harness_error": f"base {b} exports no data"}
    sample = None

    def one(var):
        nonlocal n, sample
        res = execute(pkts, lines, var)
        n += 1
        sig = {"base": b, "variant": {k: (v if not isinstance(v, list) or k != "order" else "perm") for k, v in var.items()}}
        sig["variant"] = _short(var)
        if not res.ok:
            fails.append({"kind": "run_failed", "sig": sig, "sub": var, "detail": res.status + " " + res.detail[-300:]})
        elif res.out != base.out:
            kind = "export_differs"
            if res.out is None:
                kind = "no_output_file"
            fails.append({"kind": kind, "sig": sig, "sub": var,
                          "detail": f"output {len(res.out or b'')} bytes, base variant {len(base.out)} bytes"})
        else:
            nontriv.append(engine.jhash([b, var]))
            if sample is None:
                sample = {"base": b, "variant": var, "output_bytes": len(res.out)}

    if case["d1"] is None:
        one({"eol": None})
        # the DSB-only variants once more through the real command line
        for cwd in ("repo", "root", "tmp"):
            var = {"delivery": {"kind": "dsb_only", "cwd": cwd}}
            res = execute(pkts, lines, var, judge_cli=True)
            n += 1
            if not res.ok or res.out != base.out:
                fails.append({"kind": "cli_" + ("run_failed" if not res.ok else "no_output_file" if res.out is None else "export_differs"),
                              "sig": {"base": b, "variant": _short(var)}, "sub": var, "detail": res.status + " " + res.detail[-200:] + res.stdout[-200:]})
            else:
                nontriv.append(engine.jhash([b, var, "cli"]))
    else:
        alts1 = alternatives(b, lines, len(pkts), tier)
        alts2 = alternatives(b, lines, len(pkts), tier, for_pairs=True)
        d1 = case["d1"]
        dims = list(alts1)
        for v1 in alts1[d1][case["lo"]:case["hi"]]:
            one({d1: v1})
            if d1 == "order" and v1 not in alts2.get("order", []):
                continue
            for d2 in dims[dims.index(d1) + 1:]:
                for v2 in alts2[d2]:
                    var = {d1: v1, d2: v2}
                    if not compatible(var, b):
                        continue
                    one(var)
    uniq = {}
    for f in fails:
        uniq.setdefault(engine.jhash([f["kind"], f["sig"]]), f)
    r = {"n": n, "fails": list(uniq.values()), "nontrivial": nontriv, "outcomes": [scen.digest(base.out)]}
    if sample:
        r["sample"] = sample
    return r


def compatible(var, base):
    dl = var.get("delivery")
    if dl and dl["kind"] == "file_plus_empty_dsb" and var.get("eol"):
        return True
    return True


def _short(var):
    """signature of a variant that names the feature, not the position"""
    out = {}
    for k, v in var.items():
        if k == "order":
            out[k] = "permuted"
        elif k == "insert":
            out[k] = v[0]
        elif k == "delivery":
            out[k] = v["kind"] + (":" + v["cwd"] if "cwd" in v else "") + (":%d" % v["boundary"] if "boundary" in v else "") + (":empty" if v.get("payload") == "" else ":comment" if v.get("payload") else "")
        else:
            out[k] = v
    return out
