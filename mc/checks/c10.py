"""C10 - server-port selection and port mapping behave as documented.

product: -p lists x -m variants x a capture holding TLS and QUIC connections to server ports
{443, 44330, 8443, 9443, 8080, 12345} at once.  Oracle = the documented function: a TCP flow is
exported iff its server port is a default or selected one; exported server port = original without
-m, the mapped value if listed, else 8080; the client port never changes - for TLS and QUIC alike."""
import itertools
from .. import harness, scen, engine
from ..model import cap, tls

PROP = "C10"
LEVEL = "exploration"

PORTS = [443, 44330, 8443, 9443, 8080, 12345, 65535, 1]
P_OPTS = [None, ["8443"], ["8443", "9443"], ["443"], ["12345", "8080"], ["65535"], ["1", "65535", "8443"]]
M_OPTS = [None, [], ["443:8081"], ["443:8081", "8443:9000"], ["443:8081,", "8443:9000"], ["8443:9000"], ["44330:1"],
          ["443:8081", "44330:8082", "8443:8083", "9443:8084", "8080:8085", "12345:8086"],
          ["443:443"], ["8443:8443", "443:8081"], ["44330:44330", "8443:443"],
          # a pair whose left side is the CLIENT port of the first TLS (40001) / first QUIC (40171) flow: the client port never changes
          ["40001:7", "443:8081"], ["40171:7", "40001:443"], ["65535:65534", "1:65535"],
          # the server port is mapped to the number the first TLS / first QUIC client uses as its own port
          ["443:40001", "8443:40171"], ["443:40171", "44330:40001"]]


def describe(tier):
    return {
        "rule": f"{len(P_OPTS)} -p lists x {len(M_OPTS)} -m variants (absent, bare, pairs with and without trailing commas, identity pairs, pairs naming a client port, the server port mapped to the client's own port number) x 19 "
                "connections (TLS and QUIC to each of 8 server ports incl. 1 and 65535, two pairs sharing one client endpoint, client port 44330 to 443, 8443 <-> 8443) in one capture, IPv4 and IPv6 (thorough: further TLS versions). "
                "non-trivial: a configuration in which at least one flow is exported on a port different from another flow's; "
                "distinct = distinct (configuration, flow)",
        "exhaustive": True,
        "bounds": {"p_lists": len(P_OPTS), "m_variants": len(M_OPTS), "server_ports": PORTS},
        "min_nontrivial": 30,
        "assumptions": [
            "documented function taken from README.md and the -p/-m help texts",
            "QUIC flows are exported whatever their server port (the statement restricts only TCP); for them only the mapping "
            "rule and the unchanged client port are asserted",
            "a flow's server is the side using the selected port; when both ports are selected ones (client port 44330 to server port 443 is "
            "generated) the side that sends the first packet is the client; a client on a selected port towards an unselected port is not generated",
        ],
    }


def cases(tier, seed):
    variants = [("v4", tls.TLS12, 0xC02F), ("v6", tls.TLS13, 0x1301)]
    if tier == "thorough":
        variants += [("v4", tls.TLS10, 0x002F), ("v6", tls.TLS12, 0x003C)]
    for var in variants:
        for pi in range(len(P_OPTS)):
            yield {"p": pi, "var": list(var), "seed": seed}


def run_case(case):
    harness.load()
    seed = case["seed"]
    ipver, v, code = case["var"]
    def build(shared):
        flows = []
        for i, port in enumerate(PORTS):
            flows.append(scen.tls_flow({"version": v, "suite": code, "history": [("c", 10 + i), ("s", 20 + i)]}, seed, i,
                                       v6=(ipver == "v6"), server_port=port))
        for i, port in enumerate(PORTS):
            flows.append(scen.quic_flow({"suite": 0x1301, "script": [("c", [(0, 10 + i)]), ("s", [(0, 20 + i)])]}, seed, 10 + i,
                                        v6=(ipver == "v6"), server_port=port))
        # a TLS and a QUIC connection whose CLIENT port is itself a default server port (44330 lies in the ephemeral range), to 443
        flows.append(scen.tls_flow({"version": v, "suite": code, "history": [("c", 41), ("s", 42)]}, seed, 30, v6=(ipver == "v6"), server_port=443))
        flows.append(scen.quic_flow({"suite": 0x1301, "script": [("c", [(0, 43)]), ("s", [(0, 44)])]}, seed, 31, v6=(ipver == "v6"), server_port=443))
        for f in flows[-2:]:
            f.ends.client.port = 44330
        # ... and a TLS connection whose client and server use the SAME port number (8443 <-> 8443)
        flows.append(scen.tls_flow({"version": v, "suite": code, "history": [("c", 45), ("s", 46)]}, seed, 32, v6=(ipver == "v6"), server_port=8443))
        flows[-1].ends.client.port = 8443
        if shared:
            # the TLS connections to 443 and to 8443 come from ONE client endpoint (same address and source port) and go to one
            # server address: they differ in the server port only; the same for the QUIC connections to 443 and 9443
            for a, b in ((0, 2), (len(PORTS), len(PORTS) + 3)):
                fa, fb = flows[a], flows[b]
                fb.ends.client.ip, fb.ends.client.port, fb.ends.client.mac = fa.ends.client.ip, fa.ends.client.port, fa.ends.client.mac
                fb.ends.server.ip, fb.ends.server.mac = fa.ends.server.ip, fa.ends.server.mac
        ends = {f.id: f.ends for f in flows}
        return flows, cap.stamp(scen.round_robin([f.pkts for f in flows]), ends)
    built = {True: build(True), False: build(False)}
    keylog = []
    for f in built[True][0]:
        keylog += f.keylog()
    fails, nontriv, outcomes = [], [], set()
    n = 0
    sample = None
    p = P_OPTS[case["p"]]
    for mi, m in enumerate(M_OPTS):
        args = []
        if p:
            args += ["-p"] + p
        if m is not None:
            args += ["-m"] + m
        mapping = None
        if m is not None:
            mapping = {443: 8080} if not m else {int(x.replace(",", "").split(":")[0]): int(x.replace(",", "").split(":")[1]) for x in m}
        # connections that differ in the server port only stay apart in the output only if the mapping keeps their ports apart
        # (the documented default sends every unlisted port to 8080): otherwise the capture with distinct client endpoints is used
        shared = mapping is None or (mapping.get(443, 8080) != mapping.get(8443, 8080) and mapping.get(443, 8080) != mapping.get(9443, 8080))
        flows, pkts = built[shared]
        res = scen.run(pkts, keylog, args)
        n += 1
        cfg = {"p": " ".join(p or []), "m": None if m is None else " ".join(m), "shared_client_endpoint": shared}
        try:
            an = scen.analyse(res)
        except scen.ExportError as e:
            fails.append({"kind": e.kind, "sig": cfg, "detail": e.detail})
            continue
        selected = {443, 44330} | {int(x) for x in (p or [])}
        seen_ports = set()
        ok_all = True
        for f in flows:
            sp = f.ends.server.port
            want_port = sp if mapping is None else mapping.get(sp, 8080)
            sig = dict(cfg, flow=f.kind, server_port=sp, client_port_is_a_server_port=f.ends.client.port in (443, 44330, 8443))
            if f.kind == "tls":
                convs = [c for c in an["tcp"].values() if c["client"] == f.ends.client.key() and c["server"][0] == f.ends.server.ip
                         and (c["c2s"], c["s2c"]) == (f.conn.plain["c"], f.conn.plain["s"])]
                should = sp in selected
                if not should:
                    if convs:
                        fails.append({"kind": "unselected_port_exported", "sig": sig, "detail": f"TCP flow to port {sp} exported"})
                        ok_all = False
                    continue
                if len(convs) != 1:
                    fails.append({"kind": "selected_flow_missing", "sig": sig, "detail": f"{len(convs)} conversations of the client endpoint carry this connection's plaintext"})
                    ok_all = False
                    continue
                c = convs[0]
                got_port = c["server"][1]

            else:
                mine = {p for _, p in f.conn.truth()}
                ex = [(ts, s, d) for k, lst in an["udp"].items() for ts, s, d, pl, fr in lst
                      if (s == f.ends.client.key() or d == f.ends.client.key()) and pl and pl in mine]
                if not ex:
                    fails.append({"kind": "quic_flow_missing", "sig": sig, "detail": "no datagram for the client endpoint"})
                    ok_all = False
                    continue
                ports = {(d[1] if s == f.ends.client.key() else s[1]) for ts, s, d in ex}
                if len(ports) != 1:
                    fails.append({"kind": "server_port_inconsistent", "sig": sig, "detail": str(ports)})
                    ok_all = False
                    continue
                got_port = ports.pop()
            if got_port != want_port:
                fails.append({"kind": "wrong_server_port", "sig": sig,
                              "detail": f"exported server port {got_port}, documented {want_port} (client port unchanged)"})
                ok_all = False
            else:
                seen_ports.add(got_port)
                nontriv.append(engine.jhash(sig))
        outcomes.add(scen.digest(res.out))
        if sample is None and ok_all:
            sample = {"args": args, "exported_server_ports": sorted(seen_ports)}
    r = {"n": n, "fails": fails, "nontrivial": nontriv, "outcomes": sorted(outcomes)}
    if sample:
        r["sample"] = sample
    return r
