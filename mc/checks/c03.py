"""C03 - an undecryptable or damaged flow never aborts the run or disturbs other flows.

faults(base, menu): every single fault of every kind at every position on a capture holding a
victim, a healthy TLS bystander and a healthy QUIC bystander (round-robin interleaved).
Oracle: (1) run() returns normally and writes an output our strict reader accepts; (2) the
bystanders' output packets are byte-identical (frames and timestamps) to the fault-free run;
(3) for information-removing faults the victim's export is per direction a prefix of its true
plaintext (QUIC: an in-order subsequence of its true datagrams); for corrupting faults only (1), (2).
"""
import itertools
from .. import harness, scen, engine
from ..model import cap, tls, net

PROP = "C03"
LEVEL = "fault_enumeration"

VICTIMS = [
    ("tls", {"version": tls.SSL30, "suite": 0x002F}), ("tls", {"version": tls.TLS10, "suite": 0x0005}),
    ("tls", {"version": tls.TLS11, "suite": 0x0035}), ("tls", {"version": tls.TLS12, "suite": 0xC02F}),
    ("tls", {"version": tls.TLS12, "suite": 0x003C, "etm": True}), ("tls", {"version": tls.TLS12, "suite": 0x000A}),
    ("tls", {"version": tls.TLS13, "suite": 0x1301}), ("tls", {"version": tls.TLS13, "suite": 0x1303, "hs_secrets": False}),
    ("quic", {"suite": 0x1301}), ("quic", {"suite": 0x1303}),
]
HIST = [("c", 90), ("s", 260), ("s", 33), ("c", 12), ("s", 5)]
FAMILIES = ["delete", "cut", "keylog", "suite", "flip", "overwrite", "truncate", "record", "http", "inject_short", "inject_first",
            "inject_long"]
INFO_REMOVING = {"delete", "cut", "keylog", "suite", "http", "inject_short", "inject_first", "inject_long"}
SYMS = [0x00, 0x01, 0x3f, 0x40, 0x41, 0x7f, 0x80, 0xbf, 0xc0, 0xc3, 0xff]


def describe(tier):
    return {
        "rule": "per victim (8 TLS classes, 2 QUIC suites) every single fault: delete packet i (thorough: also every PAIR of packets); victim truncated after / "
                "started at packet i; every subset of its key-log lines removed, each/all secrets randomised; ServerHello "
                "suite replaced by unsupported values; bit flips (bits 0 and 7" + ("" if tier == "quick" else ", all 8 bits") +
                ") and 00/ff overwrites at " + ("every payload byte <12 then every 41st (ff only)" if tier == "quick" else "every payload byte") +
                "; payload truncated to " + ("every length <12 then every 61st" if tier == "quick" else "every length <200 then every 3rd") +
                "; every TLS record's type / version / length field set to boundary values, the record emptied or replaced by short alerts; "
                "plain HTTP on 443; structured QUIC long-header datagrams from foreign addresses (8 first bytes x 8 versions incl. 0/2/3/4 x 6 destination-ID shapes x 2 source-ID shapes x 5 bodies, next to an ordinary and a zero-length-ID QUIC bystander, with and without -a; thorough: 27 first bytes); TLS victims end with encrypted closing alerts; injected UDP datagrams (all strings <=3 over 11 symbols on 4 tuples; every first byte x 3 "
                "bodies x 9 lengths; quick: strings <=2 on 4 tuples, length 3 on one, every first byte x 1 body x 2 lengths). non-trivial: a fault after which "
                "both bystanders still export data; distinct = distinct (victim, fault)",
        "exhaustive": True,
        "bounds": {"victims": len(VICTIMS), "fault_families": FAMILIES},
        "min_nontrivial": 2000,
        "assumptions": [
            "bystanders: TLS 1.2 AES-GCM and QUIC AES-128-GCM (for QUIC victims a second QUIC connection) - healthy flows on "
            "4-tuples of their own; injected datagrams never use a bystander's 4-tuple (they would be part of that flow)",
            "clause (3) for QUIC victims: exported datagrams are an in-order subsequence of the true datagrams (QUIC packets "
            "decrypt independently, a lost datagram does not stop later ones)",
            "corrupting faults (flip/overwrite/truncate) assert only no-abort and bystander identity, as the property states",
        ],
    }


def cases(tier, seed):
    for vi in range(len(VICTIMS)):
        for fam in FAMILIES:
            if fam in ("flip", "overwrite", "truncate"):
                for part in range(8):
                    yield {"victim": vi, "family": fam, "part": part, "nparts": 8, "seed": seed, "tier": tier}
            elif fam == "inject_long":
                if vi not in (3, 8):
                    continue
                for zl in (0, 1):            # QUIC bystander with ordinary / with a zero-length client connection id
                    for part in range(8):
                        yield {"victim": vi, "family": fam, "part": part, "nparts": 8, "zl": zl, "seed": seed, "tier": tier}
            elif fam in ("inject_short", "inject_first"):
                if vi not in (3, 8):
                    continue            # injection does not depend on the victim class: one TLS and one QUIC victim
                for part in range(16):
                    yield {"victim": vi, "family": fam, "part": part, "nparts": 16, "seed": seed, "tier": tier}
            else:
                yield {"victim": vi, "family": fam, "seed": seed, "tier": tier}


def build(vi, seed, override=None, by2_override=None):
    kind, scn = VICTIMS[vi]
    scn = dict(scn)
    if override:
        scn.update(override)
    if kind == "tls":
        scn["history"] = HIST
        scn.setdefault("close_alerts", ("c", "s"))       # the connection ends with (encrypted) closing alerts
        victim = scen.tls_flow(scn, seed, 0)
    else:
        victim = scen.quic_flow(scn, seed, 0)
    by1 = scen.tls_flow({"version": tls.TLS12, "suite": 0x009D, "history": [("c", 50), ("s", 70), ("c", 3)]}, seed, 1)
    by2 = scen.quic_flow(dict({"suite": 0x1301 if kind == "tls" else 0x1302}, **(by2_override or {})), seed, 2, v6=(vi % 2 == 1))
    flows = [victim, by1, by2]
    ends = {f.id: f.ends for f in flows}
    pkts = cap.stamp(scen.round_robin([f.pkts for f in flows]), ends)
    return flows, ends, pkts


def keylog_of(flows, victim_lines=None):
    lines = []
    for f in flows:
        if f.id == 0 and victim_lines is not None:
            lines += victim_lines
        else:
            lines += f.keylog()
    return lines


def observe(res, flows):
    an = scen.analyse(res)
    return an, [scen.flow_raw_packets(an, f) for f in flows]


def victim_ok(an, victim):
    """clause (3): prefix per direction / in-order subsequence of datagrams"""
    if victim.kind == "tls":
        c = scen.tcp_streams(an, victim.ends)
        if c is None:
            return None
        for name, got, want in (("c2s", c["c2s"], victim.conn.plain["c"]), ("s2c", c["s2c"], victim.conn.plain["s"])):
            if not want.startswith(got):
                return f"{name}: exported {len(got)} bytes that are not a prefix of the {len(want)} bytes sent"
        return None
    got = [(d, p) for d, p, _ in scen.udp_export(an, victim.ends)]
    want = victim.conn.truth()
    it = iter(want)
    for g in got:
        if not any(g == w for w in it):
            return f"exported datagram ({g[0]},{len(g[1])}B) is not the next true datagram"
    return None


def run_case(case):
    harness.load()
    vi, fam, seed, tier = case["victim"], case["family"], case["seed"], case["tier"]
    flows, ends, pkts = build(vi, seed, by2_override={"ccid_len": 0} if case.get("zl") else None)
    victim = flows[0]
    vname = VICTIMS[vi][0] + ":" + ("%s/%#06x" % (tls.VERSION_NAMES.get(VICTIMS[vi][1].get("version"), "QUIC"), VICTIMS[vi][1]["suite"]))
    base = scen.run(pkts, keylog_of(flows))
    try:
        an0, ref = observe(base, flows)
    except scen.ExportError as e:
        return {"n": 1, "fails": [{"kind": "baseline_" + e.kind, "sig": {"victim": vname}, "detail": e.detail}]}
    if not ref[1] or not ref[2] or not ref[0]:
        return {"n": 1, "harness_error": f"baseline exports nothing for a flow: {[len(r) for r in ref]} ({vname})"}
    fails, nontriv, outcomes = [], [], set()
    n = 0
    sample = None

    refs_by_args = {(): ref}

    def check(pk, keylog, sig, info_removing, flows_=flows, args=(), injected=None):
        nonlocal n, sample, ref
        args = tuple(args)
        if args not in refs_by_args:
            refs_by_args[args] = observe(scen.run(pkts, keylog_of(flows), list(args)), flows)[1]
        ref = refs_by_args[args]
        res = scen.run(pk, keylog, list(args))
        n += 1
        try:
            an, obs = observe(res, flows_)
        except scen.ExportError as e:
            fails.append({"kind": e.kind, "sig": sig, "detail": e.detail})
            return
        bad = False
        for bi in (1, 2):
            if obs[bi] != ref[bi]:
                fails.append({"kind": "bystander_changed", "sig": dict(sig, bystander=flows_[bi].kind),
                              "detail": f"bystander {bi}: {len(obs[bi])} packets, fault-free {len(ref[bi])}"})
                bad = True
        if info_removing:
            r = victim_ok(an, flows_[0])
            if r:
                fails.append({"kind": "victim_not_prefix", "sig": sig, "detail": r})
                bad = True
        # nothing but the three flows may appear
        known = set()
        for o in obs:
            known.update(raw for _, raw in o)
        foreign = [fr for _, fr in an["packets"] if fr.raw not in known and fr.payload
                   and not (injected and {(fr.src_ip, fr.sport), (fr.dst_ip, fr.dport)} == injected)]
        if foreign:
            fails.append({"kind": "foreign_payload_in_output", "sig": sig,
                          "detail": f"{len(foreign)} packets with payload that belong to no modelled flow, e.g. {foreign[0]!r}"})
            bad = True
        if not bad:
            nontriv.append(engine.jhash(sig))
            outcomes.add(scen.digest(res.out))
            if sample is None:
                sample = {"victim": vname, "fault": sig, "victim_packets_exported": len(obs[0])}

    vidx = [i for i, p in enumerate(pkts) if p.conn == 0]
    kl = keylog_of(flows)

    def mutate(i, new_payload):
        pk = [p.copy() for p in pkts]
        pk[i].payload = new_payload
        cap.render(pk[i], ends)
        return pk

    if fam == "delete":
        for k, i in enumerate(vidx):
            check(pkts[:i] + pkts[i + 1:], kl, {"victim": vname, "fault": "delete", "pos": k}, True)
        if tier == "thorough":
            # fault pairs: every pair of victim packets lost
            for (k1, i1), (k2, i2) in itertools.combinations(list(enumerate(vidx)), 2):
                check([p for i, p in enumerate(pkts) if i not in (i1, i2)], kl,
                      {"victim": vname, "fault": "delete_pair", "pos": [k1, k2]}, True)
    elif fam == "cut":
        for k in range(len(vidx) + 1):
            keep = set(vidx[:k])
            check([p for i, p in enumerate(pkts) if p.conn != 0 or i in keep], kl, {"victim": vname, "fault": "cut_after", "pos": k}, True)
            drop = set(vidx[:k])
            check([p for i, p in enumerate(pkts) if p.conn != 0 or i not in drop], kl, {"victim": vname, "fault": "cut_before", "pos": k}, True)
        # and the whole capture cut (everything after position k gone) - bystanders then legitimately change, only (1)
    elif fam == "keylog":
        vl = victim.keylog()
        for r in range(len(vl) + 1):
            for sub in itertools.combinations(range(len(vl)), r):
                lines = [l for i, l in enumerate(vl) if i not in sub]
                check(pkts, keylog_of(flows, lines), {"victim": vname, "fault": "keylog_remove",
                                                      "removed": [vl[i].split()[0] for i in sub]}, True)
        rng = scen.rng_for(seed, "c03-secrets", vi)
        for i in list(range(len(vl))) + [None]:
            lines = []
            for j, l in enumerate(vl):
                lab, cr, sec = l.split()
                if i is None or i == j:
                    sec = rng.randbytes(len(sec) // 2).hex()
                lines.append(f"{lab} {cr} {sec}")
            check(pkts, keylog_of(flows, lines), {"victim": vname, "fault": "wrong_secret", "line": "all" if i is None else vl[i].split()[0]}, False)
    elif fam == "suite":
        alts = [0x0000, 0xFFFF, 0x1306, 0x0A0A, 0xC07A] if victim.kind == "tls" else [0x1305, 0x0A0A, 0xFFFF]
        for ws in alts:
            fl2, ends2, pk2 = build(vi, seed, {"wire_suite": ws})
            check(pk2, keylog_of(fl2), {"victim": vname, "fault": "unknown_suite", "suite": f"{ws:#06x}"}, True, flows_=fl2)
    elif fam in ("flip", "overwrite", "truncate"):
        part, nparts = case["part"], case["nparts"]
        work = []
        for k, i in enumerate(vidx):
            L = len(pkts[i].payload)
            if L == 0:
                continue
            if tier == "quick":
                pos = list(range(min(12, L))) + list(range(12, L, 41 if fam != "truncate" else 61))
            else:
                pos = list(range(L)) if fam != "truncate" else list(range(min(200, L))) + list(range(200, L, 3))
            for j in pos:
                work.append((k, i, j))
        for w, (k, i, j) in enumerate(work):
            if w % nparts != part:
                continue
            p = pkts[i].payload
            if fam == "flip":
                for b in ((0, 7) if tier == "quick" else range(8)):
                    np_ = p[:j] + bytes([p[j] ^ (1 << b)]) + p[j + 1:]
                    check(mutate(i, np_), kl, {"victim": vname, "fault": "flip", "pos": k, "byte": j, "bit": b}, False)
            elif fam == "overwrite":
                for val in ((0xFF,) if tier == "quick" else (0x00, 0xFF)):
                    if p[j] == val:
                        continue
                    np_ = p[:j] + bytes([val]) + p[j + 1:]
                    check(mutate(i, np_), kl, {"victim": vname, "fault": "overwrite", "pos": k, "byte": j, "value": val}, False)
            else:
                if j == 0 and pkts[i].proto == "tcp":
                    continue
                check(mutate(i, p[:j]), kl, {"victim": vname, "fault": "truncate", "pos": k, "length": j}, False)
    elif fam == "record":
        # structure-aware corruption of every TLS record of the victim: content type, version and length fields set to
        # boundary values, the record emptied, the record duplicated
        if victim.kind != "tls":
            return {"n": 0}
        conn = victim.conn
        recs = [r for _, rs in conn.sends for r in rs]
        for ri, rec in enumerate(recs):
            raw = rec.raw
            ln = len(raw) - 5
            muts = []
            for t in (0x14, 0x15, 0x16, 0x17, 0x18, 0x00, 0xFF):
                if t != raw[0]:
                    muts.append((f"type={t:#04x}", bytes([t]) + raw[1:]))
            for v in (b"\x00\x00", b"\x03\x04", b"\xff\xff", b"\x02\x00"):
                muts.append((f"version={v.hex()}", raw[:1] + v + raw[3:]))
            for L in (0, 1, ln - 1, ln + 1, 0xFFFF):
                if 0 <= L <= 0xFFFF and L != ln:
                    muts.append((f"length={L if L in (0, 1, 0xFFFF) else ('len-1' if L == ln - 1 else 'len+1')}", raw[:3] + L.to_bytes(2, "big") + raw[5:]))
            muts.append(("emptied", raw[:3] + b"\x00\x00"))
            muts.append(("emptied_as_alert", b"\x15" + raw[1:3] + b"\x00\x00"))
            muts.append(("emptied_as_handshake", b"\x16" + raw[1:3] + b"\x00\x00"))
            muts.append(("one_byte_alert", b"\x15" + raw[1:3] + b"\x00\x01\x01"))
            muts.append(("warning_alert_instead", b"\x15" + raw[1:3] + b"\x00\x02\x01\x00"))
            for name, new in muts:
                sends = [(dd, b"".join((new if r is rec else r.raw) for r in rs)) for dd, rs in conn.sends]
                vp = cap.tcp_packets(0, sends)
                old_v = [p for p in pkts if p.conn == 0]
                if len(vp) != len(old_v):
                    continue
                it = iter(vp)
                pk = []
                for p in pkts:
                    if p.conn == 0:
                        q = next(it)
                        q.ts = p.ts
                        cap.render(q, ends)
                        pk.append(q)
                    else:
                        pk.append(p)
                check(pk, kl, {"victim": vname, "fault": "record_" + name, "record": ri, "kind": rec.kind, "dir": rec.dir}, False)
    elif fam == "http":
        if victim.kind != "tls":
            return {"n": 0}
        http = [("c", b"GET / HTTP/1.1\r\nHost: example.com\r\n\r\n"), ("s", b"HTTP/1.1 200 OK\r\nContent-Length: 5\r\n\r\nhello"),
                ("c", b"\x16\x03"), ("s", b"\x17\x03\x03\x00\x05hello"), ("c", b"\x16\x03\x01\x00\x05\x01\x00\x00\x01\x00")]
        hp = cap.tcp_packets(0, http)
        pk = cap.stamp(scen.round_robin([hp, flows[1].pkts, flows[2].pkts]), ends)
        # timestamps differ from the baseline capture only if the victim has another packet count: pad/truncate positions
        # therefore compare against a baseline built the same way without the victim at all
        res0 = scen.run([p for p in pk if p.conn != 0], kl)
        an_, ref_ = observe(res0, flows)
        saved = ref[1], ref[2]
        ref[1], ref[2] = ref_[1], ref_[2]
        victim.conn.plain = {"c": b"", "s": b""}
        check(pk, kl, {"victim": vname, "fault": "plain_http_on_443"}, True)
        ref[1], ref[2] = saved
    elif fam == "inject_long":
        # structured QUIC long-header datagrams from addresses that belong to no flow: every packet type x version x
        # destination-cid shape (absent, foreign, the bystander's own ids) x source-cid shape x body, without and with -a
        part, nparts = case["part"], case["nparts"]
        by2 = flows[2].conn
        src = net.Endpoint(b"\x02\xEE\x00\x00\x00\x01", "10.77.0.9", 47001)
        dsts = [net.Endpoint(b"\x02\xEE\x00\x00\x00\x03", "10.77.0.44", 443), net.Endpoint(b"\x02\xEE\x00\x00\x00\x06", "10.77.0.46", 9999)]
        if len(flows[2].ends.server.ip) != 4:
            src = net.Endpoint(src.mac, "fd77::9", 47001)
            dsts = [net.Endpoint(dsts[0].mac, "fd77::44", 443), net.Endpoint(dsts[1].mac, "fd77::46", 9999)]
        # (a datagram that carries one of the bystander's own connection ids IS, by QUIC's rules, a datagram of that connection -
        # connection migration - and is therefore not part of the menu, just as datagrams on a bystander's 4-tuple are not)
        dcids = [b"", bytes(range(0xA0, 0xA8)), bytes(range(0xA0, 0xB4)), bytes(range(0xA0, 0xA1)), by2.ccid[:-1] + bytes([by2.ccid[-1] ^ 1]) if by2.ccid else b"\x00",
                 by2.scid[:4]]
        scids = [b"", bytes(range(0xC0, 0xC8))]
        versions = [1, 0, 0x6B3343CF, 0x0A0A0A0A, 2, 3, 4, 0xFFFFFFFF]
        bodies = [b"", bytes(range(0xA0, 0xB5)), b"\x00" + bytes(range(1, 40)), bytes([0x40, 0x64]) + bytes(100), bytes(1180)]
        fbs = [0xC0, 0xC3, 0xD1, 0xE2, 0xF0, 0xFF, 0x80, 0xCC] if tier == "quick" else list(range(0x80, 0x100, 5)) + [0xFF]
        combos = [(fb, v, dc, sc, bi, di) for fb in fbs for v in versions for dc in range(len(dcids)) for sc in range(len(scids))
                  for bi in range(len(bodies)) for di in range(len(dsts))
                  if tier != "quick" or ((bi + dc + di) % 2 == 0 or fb >= 0xF0) and (v in versions[:4] or (bi in (1, 4) and di == 0))]
        ats = [i for i, p in enumerate(pkts) if p.conn == 2]
        for w, (fb, v, dc, sc, bi, di) in enumerate(combos):
            if w % nparts != part:
                continue
            pl = bytes([fb]) + v.to_bytes(4, "big") + bytes([len(dcids[dc])]) + dcids[dc] + bytes([len(scids[sc])]) + scids[sc] + bodies[bi]
            # after the bystander's second packet (its ids are known by then) - or right at the start
            at = ats[2] if w % 3 else 0
            ip = cap.Pkt(99, "c", "udp", pl)
            ip.ts = pkts[at].ts - cap.STEP / 10007 * 3
            ip.frame = net.build_frame(src, dsts[di], "udp", pl)
            pk = pkts[:at] + [ip] + pkts[at:]
            inj = {src.key(), dsts[di].key()}
            for args in ((), ("-a",)) if (w // 3) % 2 == 0 or tier != "quick" else ((),):
                check(pk, kl, {"victim": vname, "fault": fam, "first": fb, "version": v, "dcid": dc, "scid": sc, "body": bi, "dst": di,
                               "at": "start" if at == 0 else "mid", "zl": case.get("zl", 0), "args": list(args)}, not args, args=args, injected=inj)
    else:
        part, nparts = case["part"], case["nparts"]
        inj_c = net.Endpoint(b"\x02\xEE\x00\x00\x00\x01", "10.77.0.9", 47001)
        tuples = [(inj_c, net.Endpoint(b"\x02\xEE\x00\x00\x00\x02", "10.77.0.53", 53)),
                  (inj_c, net.Endpoint(b"\x02\xEE\x00\x00\x00\x03", "10.77.0.44", 443)),
                  (net.Endpoint(b"\x02\xEE\x00\x00\x00\x04", "10.77.0.10", 47002), flows[2].ends.server),
                  (net.Endpoint(b"\x02\xEE\x00\x00\x00\x05", "10.77.0.45", 443), inj_c)]
        if fam == "inject_short":
            payloads = [bytes(t) for ln in (1, 2, 3) for t in itertools.product(SYMS, repeat=ln)]
            if tier == "quick":
                combos = [(ti, "middle" if ti % 2 else "start", pl) for ti in range(len(tuples)) for pl in payloads
                          if len(pl) < 3 or (ti == 1 and vi == 3)]
            else:
                combos = [(ti, pos, pl) for ti in range(len(tuples)) for pos in ("start", "middle") for pl in payloads]
        else:
            payloads = []
            for fb in range(256):
                for body in (("counter",) if tier == "quick" else ("zeros", "ff", "counter")):
                    for ln in ((7, 1200) if tier == "quick" else (1, 5, 6, 7, 21, 27, 100, 1200, 1500)):
                        rest = {"zeros": b"\x00" * (ln - 1), "ff": b"\xff" * (ln - 1), "counter": bytes(range(1, 256)) * 6}[body][:ln - 1]
                        payloads.append(bytes([fb]) + rest)
            combos = [(1, "middle", pl) for pl in payloads]
        for w, (ti, pos, pl) in enumerate(combos):
            if w % nparts != part:
                continue
            src, dst = tuples[ti]
            at = 0 if pos == "start" else len(pkts) // 2
            ip = cap.Pkt(99, "c", "udp", pl)
            ip.ts = pkts[at].ts - cap.STEP / 10007 * 3
            ip.frame = net.build_frame(src, dst, "udp", pl)
            pk = pkts[:at] + [ip] + pkts[at:]
            check(pk, kl, {"victim": vname, "fault": fam, "tuple": ti, "pos": pos, "payload": pl[:8].hex(), "len": len(pl)}, True)
    r = {"n": n, "fails": fails, "nontrivial": nontriv, "outcomes": sorted(outcomes)}
    if sample:
        r["sample"] = sample
    return r
