"""C05 - export is independent of TCP segmentation, retransmission and reordering.

Seam level (real Session object, a recording stub in place of handle_tls_record, so that framing
is isolated from decryption):
  layer A  every cut set of short record streams, delivered in order
  layer B  explicit-state search over arrival events (deliver an undelivered segment in any order,
           deliver an exact duplicate of a delivered segment) for every segmentation with few segments
  layer W  initial sequence numbers that make the sequence space wrap at every byte of the stream
End to end (real decryption through run()):
  layer E  per version class: segmentations, single duplicates, adjacent transpositions,
           displacements by 2, wrapping ISNs, equal ISNs in both directions, full-duplex merges of the two directions (<=3 context switches) - against the peer model's plaintext
C08's prefix clause is asserted in every non-terminal state of layer B (reported by C08 too).
"""
import itertools
from .. import harness, scen, engine
from ..model import net, cap, tls

PROP = "C05"
LEVEL = "model_checking"

CLIENT = net.Endpoint(b"\x02\x00\x00\x00\x00\x01", "10.9.0.1", 51000)
SERVER = net.Endpoint(b"\x02\x00\x00\x00\x00\x02", "10.9.0.2", 443)


def rec(body_len, fill):
    return b"\x17\x03\x03" + body_len.to_bytes(2, "big") + bytes([fill]) * body_len


def streams(max_len):
    """all streams of 1..3 records with body lengths in {0,1,3} and total length <= max_len"""
    out = []
    for n in (1, 2, 3):
        for lens in itertools.product((0, 1, 3), repeat=n):
            recs = [rec(l, 0xA0 + i) for i, l in enumerate(lens)]
            if sum(len(r) for r in recs) <= max_len:
                out.append(lens)
    return out


def describe(tier):
    q = tier == "quick"
    return {
        "rule": f"A: all cut sets of every stream of 1-3 records (bodies 0/1/3 bytes) with total length <= {12 if q else 17}; "
                f"B: BFS over arrival orders (+<=2 exact duplicates) of every segmentation with <= {3 if q else 4} segments of "
                "selected streams, with a second direction interleaved; W: ISN in {0,1,2^31-1} and every ISN that puts the 2^32 "
                "wrap on a byte of the stream x all cut sets (2-record stream) and all orders of <=3 segments; E: end-to-end with real decryption per version class (segment sizes, every single duplicate, late duplicates, transpositions and displacements of whole segments and inside multi-segment records, segments captured 2-3 places early, equal initial sequence numbers in both directions, full-duplex merges with <=3 context switches, wrapping sequence numbers). non-trivial: >= 2 segments; distinct = distinct (stream, "
                "segmentation, arrival order). states/transitions: of the arrival-event graphs",
        "exhaustive": True,
        "bounds": {"stream_len": 12 if q else 17, "bfs_segments": 3 if q else 4, "duplicates": 2},
        "min_nontrivial": 1000,
        "assumptions": [
            "state canonicalisation in B: (delivered multiset, per-direction buffered seqs, seen-seq sets, per-direction next expected "
            "sequence number, released records); "
            "the reassembler's future depends only on these (get_tls_records is a fold over the accepted packets); the "
            "thorough tier repeats B without merging for <=3 segments and requires the same verdict",
            "retransmissions are exact duplicates (same seq, same bytes), as the property says",
            "a direction's very first segment may be displaced too; no SYN is delivered at the seam (main drops empty "
            "segments), the end-to-end layer includes the TCP handshake packets",
        ],
    }


def cases(tier, seed):
    q = tier == "quick"
    for lens in streams(12 if q else 17):
        yield {"layer": "A", "lens": list(lens)}
    # (24,): a record whose outstanding part is longer than everything the other direction still sends
    bstreams = [(0, 1), (1, 3), (3, 0), (0, 0, 0), (24,), (1, 0, 3)] if q else [(0, 1), (1, 3), (3, 0), (0, 0, 0), (1, 0, 3), (3, 3), (24,), (1, 24)]
    for lens in bstreams:
        L = sum(5 + l for l in lens)
        maxseg = (3 if q else 4) if L < 20 else 3
        for k in range(1, maxseg):
            combos = list(itertools.combinations(range(1, L), k))
            for i in range(0, len(combos), 40):
                yield {"layer": "B", "lens": list(lens), "cuts": [list(c) for c in combos[i:i + 40]], "merge": True}
        if not q:
            for k in (1, 2):
                combos = list(itertools.combinations(range(1, L), k))
                for i in range(0, len(combos), 40):
                    yield {"layer": "B", "lens": list(lens), "cuts": [list(c) for c in combos[i:i + 40]], "merge": False}
    lens = (1, 3)
    L = sum(5 + l for l in lens)
    isns = [0, 1, (1 << 31) - 1] + [(1 << 32) - 1 - k for k in range(L + 1)]
    for isn in isns:
        yield {"layer": "W", "lens": list(lens), "isn": isn}
    for cls in E_CLASSES:
        yield {"layer": "E", "cls": list(cls), "seed": seed, "tier": tier}


E_CLASSES = [(tls.TLS12, 0xC02F, False), (tls.TLS12, 0x003C, True), (tls.TLS10, 0x002F, False), (tls.TLS10, 0x0005, False),
             (tls.SSL30, 0x000A, False), (tls.TLS11, 0x0035, False), (tls.TLS13, 0x1301, False), (tls.TLS13, 0x1303, False)]


# ---- seam driver ---------------------------------------------------------------------------------

def make_packet(d, seq, payload, ts):
    from tlexport.packet import Packet
    src, dst = (CLIENT, SERVER) if d == "c" else (SERVER, CLIENT)
    return Packet(net.build_frame(src, dst, "tcp", payload, seq=seq, ack=1), ts)


def feed(arrivals):
    """arrivals: list of (dir, seq, payload).  Builds a fresh real Session, delivers the packets through
    Session.handle_packet in this order and runs the real get_tls_records with a recording handler.
    Returns (released [(dir, raw)], session)"""
    from tlexport.session import Session
    pk = [make_packet(d, s, p, 1.0 + i) for i, (d, s, p) in enumerate(arrivals)]
    sess = Session(pk[0], [443], [], {}, True, False)
    for p in pk[1:]:
        if sess.matches_session(p):
            sess.handle_packet(p)
    released = []

    def recorder(record, isserver):
        released.append(("s" if isserver else "c", bytes(record.raw)))
    sess.handle_tls_record = recorder
    sess.get_tls_records()
    return released, sess


def canon(sess, released, delivered):
    """canonical state; None if the implementation no longer has the fields the merge argument is about (the search then
    falls back to the unmerged path tree, which needs no such argument)"""
    try:
        return (tuple(sorted(delivered)),
                tuple(sorted(p.seq for p in sess.client_packet_buffer)), tuple(sorted(p.seq for p in sess.server_packet_buffer)),
                tuple(sorted(sess.seen_packets_client)), tuple(sorted(sess.seen_packets_server)),
                getattr(sess, "client_next_seq", None), getattr(sess, "server_next_seq", None), tuple(released))
    except Exception:
        return None


def segs_of(stream, cuts, isn, d):
    pts = [0] + list(cuts) + [len(stream)]
    return [(d, (isn + 1 + pts[i]) & 0xFFFFFFFF, stream[pts[i]:pts[i + 1]], pts[i]) for i in range(len(pts) - 1)]


def per_dir(released, d):
    return [r for dd, r in released if dd == d]


def features(order, segs, recs_bounds):
    """describes an arrival order for failure signatures"""
    f = {}
    # first segment (in arrival order) that arrives before a segment with a lower stream offset
    pos = {i: k for k, i in enumerate(order)}
    early = None
    for k, i in enumerate(order):
        if any(j < i and pos.get(j, 1 << 30) > k for j in range(len(segs))):
            early = i
            break
    f["reordered"] = early is not None
    if early is not None:
        off = segs[early][3]
        f["early_segment_starts_at_record_boundary"] = off in recs_bounds
        f["early_segment_ends_at_record_boundary"] = (off + len(segs[early][2])) in recs_bounds
    f["first_segment_of_direction_displaced"] = bool(order) and order[0] != 0
    return f


def run_case(case):
    harness.load()
    layer = case["layer"]
    if layer == "A":
        return run_a(case)
    if layer == "B":
        return run_b(case)
    if layer == "W":
        return run_w(case)
    return run_e(case)


def stream_of(lens):
    recs = [rec(l, 0xA0 + i) for i, l in enumerate(lens)]
    return b"".join(recs), recs


def bounds_of(recs):
    b, o = {0}, 0
    for r in recs:
        o += len(r)
        b.add(o)
    return b


OTHER = [("s", 7001, rec(2, 0xE1)), ("s", 7001 + 7, rec(0, 0xE2) + rec(1, 0xE3))]
OTHER_RECS = [rec(2, 0xE1), rec(0, 0xE2), rec(1, 0xE3)]


def run_a(case):
    lens = case["lens"]
    stream, recs = stream_of(lens)
    L = len(stream)
    fails = []
    n = nontriv = 0
    outcomes = set()
    for mask in range(1 << (L - 1)):
        cuts = [i + 1 for i in range(L - 1) if mask >> i & 1]
        segs = segs_of(stream, cuts, 1000, "c")
        released, sess = feed([s[:3] for s in segs])
        n += 1
        if len(segs) >= 2:
            nontriv += 1
        got = per_dir(released, "c")
        outcomes.add(len(got))
        if got != recs:
            fails.append({"kind": "records_differ", "sig": {"layer": "A", "lens": lens, "cuts": cuts, "reordered": False},
                          "detail": f"released {[g.hex() for g in got]} want {[r.hex() for r in recs]}"})
            if len(fails) > 20:
                break
    return {"n": n, "fails": fails, "nontrivial_n": nontriv, "outcomes": [f"A{lens}:{o}" for o in outcomes],
            "sample": {"layer": "A", "record_bodies": lens, "stream": stream.hex(), "cut_sets": 1 << (L - 1)}}


def explore_orders(stream, recs, cuts, isn, merge, max_dups, fails, sigbase, with_other=True):
    """BFS over arrival events for one segmentation.  Returns (states, transitions, terminal, executions)"""
    segs = segs_of(stream, cuts, isn, "c")
    nseg = len(segs)
    rb = bounds_of(recs)
    other = OTHER if with_other else []
    # events: ('c', i) deliver client segment i (undelivered), ('d', i) duplicate of a delivered one, ('o', k) next
    # packet of the other direction (in order)
    init = ((), 0, 0)      # (order of client events as tuple of (kind,i)), other_pos, dups
    seen = set()
    frontier = [init]
    states = trans = terminal = execs = 0
    first = True
    while frontier:
        nxt = []
        for path, opos, dups in frontier:
            delivered = [i for k, i in path if k == "c"]
            succ = []
            for i in range(nseg):
                if i not in delivered:
                    succ.append((path + (("c", i),), opos, dups))
            if dups < max_dups:
                for i in sorted(set(delivered)):
                    succ.append((path + (("d", i),), opos, dups + 1))
            if opos < len(other):
                succ.append((path + (("o", opos),), opos + 1, dups))
            for p2, o2, d2 in succ:
                trans += 1
                arrivals = []
                for k, i in p2:
                    arrivals.append(other[i] if k == "o" else segs[i][:3])
                released, sess = feed(arrivals)
                execs += 1
                dl = tuple(sorted((k if k != "d" else "c", i) for k, i in p2))
                key = canon(sess, released, dl) if merge else p2
                if key is None:
                    key = p2
                order = [i for k, i in p2 if k == "c"]
                got_c = per_dir(released, "c")
                got_s = per_dir(released, "s")
                is_terminal = len(set(order)) == nseg and o2 == len(other)
                bad = None
                if is_terminal:
                    if got_c != recs or got_s != OTHER_RECS[:len(got_s)] or (with_other and got_s != OTHER_RECS):
                        bad = "records_differ"
                else:
                    if got_c != recs[:len(got_c)] or got_s != OTHER_RECS[:len(got_s)]:
                        bad = "released_not_a_prefix"
                if bad:
                    f = features(order, segs, rb)
                    sig = dict(sigbase)
                    sig.update(f)
                    sig["duplicate"] = any(k == "d" for k, _ in p2)
                    if len(fails) < 400:
                        fails.append({"kind": bad, "sig": sig,
                                      "sub": {"cuts": list(cuts), "events": [list(e) for e in p2], "isn": isn},
                                      "detail": f"cuts {list(cuts)} events {p2}: client records released "
                                                f"{[g.hex() for g in got_c]} want {[r.hex() for r in recs]}"})
                    continue          # do not extend a failing path
                if key in seen:
                    continue
                seen.add(key)
                states += 1
                if is_terminal:
                    terminal += 1
                nxt.append((p2, o2, d2))
        frontier = nxt
    return states, trans, terminal, execs


def run_b(case):
    lens = case["lens"]
    stream, recs = stream_of(lens)
    fails = []
    S = T = term = ex = 0
    for cuts in case["cuts"]:
        s, t, te, e = explore_orders(stream, recs, cuts, 1000, case["merge"], 2 if len(cuts) < 3 else 1, fails,
                                     {"layer": "B", "lens": lens, "merge": case["merge"]})
        S += s
        T += t
        term += te
        ex += e
    # collapse failures by signature (keep the first sub-case of each) to keep results small
    uniq = {}
    for f in fails:
        uniq.setdefault(engine.jhash([f["kind"], f["sig"]]), f)
    return {"n": ex, "fails": list(uniq.values()), "nontrivial_n": term, "outcomes": [f"B{lens}:{S}"],
            "count": {"states": S, "transitions": T, "traces_validated_against_impl": ex, "bfs_terminal_states": term,
                      "unmerged_states" if not case["merge"] else "merged_states": S},
            "sample": {"layer": "B", "record_bodies": lens, "segmentations": len(case["cuts"]), "example_cuts": case["cuts"][0],
                       "states": S, "transitions": T}}


def run_w(case):
    lens, isn = case["lens"], case["isn"]
    stream, recs = stream_of(lens)
    L = len(stream)
    rb = bounds_of(recs)
    fails = []
    n = nontriv = 0
    wrap_at = ((1 << 32) - (isn + 1)) if isn + 1 + L > (1 << 32) else None
    for mask in range(1 << (L - 1)):
        cuts = [i + 1 for i in range(L - 1) if mask >> i & 1]
        segs = segs_of(stream, cuts, isn, "c")
        released, sess = feed([s[:3] for s in segs])
        n += 1
        nontriv += 1 if len(segs) >= 2 else 0
        got = per_dir(released, "c")
        if got != recs:
            inside = wrap_at is not None and wrap_at not in rb and 0 < wrap_at < L
            sig = {"layer": "W", "wrap": wrap_at is not None and 0 < wrap_at < L, "wrap_inside_record": inside,
                   "wrap_at_segment_boundary": wrap_at in cuts, "reordered": False}
            fails.append({"kind": "records_differ", "sig": sig, "sub": {"isn": isn, "cuts": cuts},
                          "detail": f"isn {isn} cuts {cuts}: released {[g.hex() for g in got]}"})
    # all orders of <= 3 segments
    S = T = 0
    for k in (1, 2):
        for cuts in itertools.combinations(range(1, L), k):
            bf = []
            s, t, te, e = explore_orders(stream, recs, cuts, isn, True, 0, bf, {"layer": "W"}, with_other=False)
            S += s
            T += t
            n += e
            for f in bf:
                f["sig"]["wrap"] = wrap_at is not None and 0 < wrap_at < L
                f["sig"]["wrap_at_segment_boundary"] = wrap_at in cuts
                fails.append(f)
    uniq = {}
    for f in fails:
        uniq.setdefault(engine.jhash([f["kind"], f["sig"]]), f)
    return {"n": n, "fails": list(uniq.values()), "nontrivial_n": nontriv, "outcomes": [f"W{isn}"],
            "count": {"states": S, "transitions": T, "traces_validated_against_impl": n},
            "sample": {"layer": "W", "isn": isn, "wrap_at_stream_offset": wrap_at, "cut_sets": 1 << (L - 1)}}


# ---- end to end ---------------------------------------------------------------------------------------

def run_e(case):
    v, code, etm = case["cls"]
    seed = case["seed"]
    scn = {"version": v, "suite": code, "etm": etm, "history": [("c", 120), ("s", 400), ("s", 30), ("c", 9), ("s", 1)]}
    conn = scen.tls_conn(scn, seed)
    ends = cap.Ends(7)
    base = scen.tls_packets(conn)
    cname = f"{tls.VERSION_NAMES[v]}/{code:#06x}" + ("/etm" if etm else "")
    fails, nontriv, outcomes = [], [], set()
    n = 0

    def run_pk(pk, sig, conn=conn):
        nonlocal n
        pk = cap.stamp([p.copy() for p in pk], {0: ends})
        res = scen.run(pk, conn.keylog)
        n += 1
        try:
            an = scen.analyse(res)
        except scen.ExportError as e:
            fails.append({"kind": e.kind, "sig": sig, "detail": e.detail})
            return
        r = scen.compare_tls(an, ends, conn)
        if r:
            fails.append({"kind": r[0], "sig": sig, "detail": r[1]})
        else:
            nontriv.append(engine.jhash(sig))
            outcomes.add(scen.digest(res.out))

    data_idx = [i for i, p in enumerate(base) if p.payload]
    rr = scen.record_ranges(conn)
    bounds = {"c": {0} | {e for d, s, e, r in rr if d == "c"}, "s": {0} | {e for d, s, e, r in rr if d == "s"}}
    run_pk(base, {"layer": "E", "class": cname, "variant": "in_order"})
    # segmentations: mss 1460 (base), 64, 5, 1-byte for the first 40 bytes of every send
    for mss in (64, 5):
        run_pk(scen.tls_packets(conn, mss=mss), {"layer": "E", "class": cname, "variant": f"mss{mss}", "reordered": False})
    # every single duplicate (retransmission) placed right after the original and 2 packets later
    for i in data_idx:
        for gap in (1, 3):
            pk = list(base)
            pk.insert(min(len(pk), i + gap), base[i])
            run_pk(pk, {"layer": "E", "class": cname, "variant": "duplicate", "reordered": False})
    # late retransmissions in a long stream: 5-byte segments (hundreds per direction); a copy of every 9th segment is
    # captured again ~70, ~150 same-direction segments later and at the very end of the capture
    fine = scen.tls_packets(conn, mss=5)
    fidx = [i for i, p in enumerate(fine) if p.payload]
    for dist in (70, 150, None):
        pk = list(fine)
        ins = []
        for i in fidx[3::9]:
            later = [j for j in fidx if j > i and fine[j].dir == fine[i].dir]
            if dist is None:
                ins.append((len(fine), fine[i]))
            elif len(later) > dist:
                ins.append((later[dist], fine[i]))
        for at, p in sorted(ins, key=lambda x: -x[0]):
            pk.insert(at, p)
        run_pk(pk, {"layer": "E", "class": cname, "variant": f"late_duplicates_{dist}", "reordered": False})
    # adjacent transpositions and displacements by 2 within a direction
    for dist in (1, 2):
        for a in range(len(data_idx)):
            i = data_idx[a]
            same = [j for j in data_idx if j > i and base[j].dir == base[i].dir]
            if len(same) < dist:
                continue
            j = same[dist - 1]
            pk = list(base)
            p = pk.pop(i)
            pk.insert(j, p)            # segment i now arrives after segment j
            early = base[same[0]]
            first_of_dir = not any(base[k].dir == base[i].dir for k in data_idx if k < i)
            sig = {"layer": "E", "class": cname, "variant": f"displace{dist}", "reordered": True,
                   "early_segment_starts_at_record_boundary": early.start in bounds[early.dir],
                   "early_segment_ends_at_record_boundary": early.end in bounds[early.dir],
                   "first_segment_of_direction_displaced": first_of_dir}
            run_pk(pk, sig)
    # full duplex: both sides write at the same time - every merge of the two directions' packet sequences (from the first
    # application packet on) with at most 3 context switches; records span segments, and the other side's last segments
    # are captured while a record is incomplete
    from .c04 import merges_n
    conn2 = scen.tls_conn(dict(scn, history=[("c", 40), ("s", 400), ("c", 900), ("s", 30), ("s", 1), ("c", 5)]), seed, key=("duplex",))
    base2 = scen.tls_packets(conn2, mss=300)
    start = scen.first_app_packet(conn2, base2)
    head, tail = base2[:start], base2[start:]
    lists = [[p for p in tail if p.dir == "c"], [p for p in tail if p.dir == "s"]]
    for sched in merges_n(lists, 3 if case.get("tier") == "quick" else 5):
        pos = [0, 0]
        pk = list(head)
        for i in sched:
            pk.append(lists[i][pos[i]])
            pos[i] += 1
        run_pk(pk, {"layer": "E", "class": cname, "variant": "full_duplex", "schedule": "".join("cs"[i] for i in sched), "reordered": False}, conn=conn2)
    # adjacent transpositions inside records that span several segments (mss 150): the pieces of one record arrive out of order
    mid = scen.tls_packets(conn, mss=150)
    midx = [i for i, p in enumerate(mid) if p.payload]
    seen_dir = set()
    for a, i in enumerate(midx):
        same = [j for j in midx if j > i and mid[j].dir == mid[i].dir]
        first_of_dir = mid[i].dir not in seen_dir
        seen_dir.add(mid[i].dir)
        if not same or same[0] != i + 1:
            continue                       # only segments that directly follow each other in the capture
        pk = list(mid)
        pk[i], pk[i + 1] = pk[i + 1], pk[i]
        early = mid[i + 1]
        run_pk(pk, {"layer": "E", "class": cname, "variant": "transpose_mss150", "reordered": True,
                    "early_segment_starts_at_record_boundary": early.start in bounds[early.dir],
                    "early_segment_ends_at_record_boundary": early.end in bounds[early.dir],
                    "first_segment_of_direction_displaced": first_of_dir})
    # a segment captured two or three places EARLY (s1 s4 s2 s3): a later segment waits behind a hole that is filled piecewise
    for dist in (2, 3):
        for j in midx:
            prev = [i for i in midx if i < j and mid[i].dir == mid[j].dir]
            if len(prev) < dist + 1 or prev[-dist:] != list(range(j - dist, j)):
                continue                   # the predecessors must follow each other directly in the capture; never the first of a direction
            pk = list(mid)
            p = pk.pop(j)
            pk.insert(j - dist, p)
            run_pk(pk, {"layer": "E", "class": cname, "variant": f"advance{dist}_mss150", "reordered": True,
                        "early_segment_starts_at_record_boundary": p.start in bounds[p.dir],
                        "early_segment_ends_at_record_boundary": p.end in bounds[p.dir],
                        "first_segment_of_direction_displaced": False})
    # both endpoints chose the SAME initial sequence number: segments of the two directions carry equal sequence numbers
    for isn in (5000, (1 << 32) - 200):
        for mss in (1460, 300):
            run_pk(scen.tls_packets(conn, isn=(isn, isn), mss=mss),
                   {"layer": "E", "class": cname, "variant": "same_isn_both_directions", "wrap": isn > 1 << 31, "reordered": False})
    # wrapping initial sequence numbers
    for isn in ((1 << 32) - 2, (1 << 32) - 200, (1 << 32) - 700):
        pk = scen.tls_packets(conn, isn=(isn, isn - 5), mss=300)
        run_pk(pk, {"layer": "E", "class": cname, "variant": "wrap", "wrap": True, "reordered": False})
    return {"n": n, "fails": fails, "nontrivial": nontriv, "outcomes": sorted(outcomes),
            "count": {"traces_validated_against_impl": n},
            "sample": {"layer": "E", "class": cname, "executions": n}}
