"""C01 - TLS-over-TCP application data is exported exactly (all versions, all suites).

 layer A  product: every suite of TLExport's table x every version the suite is valid for
          (x encrypt-then-MAC for CBC where extensions exist, x handshake secrets present/absent
          for TLS 1.3) x one fixed history touching every stateful mechanism
 layer B  sequences: per cipher-state class, every history of application records up to depth N
          over {client, server} x 4 lengths
 layer C  deviations(k<=2) over handshake shapes
 layer D  segmentations x IPv4/IPv6
Oracle: per direction, the TCP payload reassembled from the output file by our own reader equals
the bytes the modelled peer sent as application data; the run succeeds; nothing else is exported.
"""
import itertools
from .. import harness, scen, engine
from ..model import tls, cap, iana

PROP = "C01"
LEVEL = "model_checking"

V = tls
FIXED_HISTORY = [("c", 1), ("s", 0), ("s", 15), ("c", 16), ("s", 17), ("c", 300), ("s", 1000), ("c", 0), ("s", 5), ("c", 31)]
BIG = ("s", 16384)

# representative suite per cipher-state class: (version, code, etm, hs_secrets)
def classes():
    out = []
    for v in (V.SSL30, V.TLS10):
        for code in (0x0004, 0x0005, 0x000A, 0x0007, 0x002F, 0x0035, 0x0041):
            out.append((v, code, False, True))
    for code in (0x000A, 0x002F, 0x0084):
        out.append((V.TLS10, code, True, True))                  # TLS 1.0 + encrypt-then-MAC + implicit IV chaining
        out.append((V.SSL30, code, True, True))                  # OpenSSL negotiates EtM under SSL 3.0 too (repo captures)
    for v in (V.TLS11, V.TLS12):
        out.append((v, 0x0005, False, True))
        out.append((v, 0x002F, False, True))
        out.append((v, 0x002F, True, True))
        out.append((v, 0x000A, False, True))
    out.append((V.TLS11, 0x0007, False, True))
    out.append((V.TLS12, 0x003C, False, True))
    out.append((V.TLS12, 0x003C, True, True))
    out.append((V.TLS12, 0xC028, False, True))
    out.append((V.TLS12, 0xC028, True, True))
    for code in (0xC02F, 0x009D, 0xC09C, 0xC0A0, 0xCCA8):
        out.append((V.TLS12, code, False, True))
    for code in (0x1301, 0x1302, 0x1303, 0x1304, 0x1305):
        out.append((V.TLS13, code, False, True))
        out.append((V.TLS13, code, False, False))
    return out


def class_name(v, code, etm, hs):
    sp = iana.parse_name(scen.suite_name(code))
    n = f"{V.VERSION_NAMES[v]}/{sp.cipher}{sp.key_len * 8}-{sp.mode}-{sp.mac or sp.prf}"
    if sp.mode == "CCM" and sp.tag_len == 8:
        n += "-8"
    if etm:
        n += "/etm"
    if v == V.TLS13 and not hs:
        n += "/no-hs-secrets"
    return n


def boundary_len(code, etm):
    sp = iana.parse_name(scen.suite_name(code))
    if sp.mode != "CBC":
        return 15
    ml = 0 if etm else iana.hash_len(sp.mac)
    return (sp.block - (ml + 1) % sp.block) % sp.block or sp.block


def describe(tier):
    n = 3 if tier == "quick" else 4
    return {
        "rule": "R: the repository's 30 captures of real stacks, exported streams vs. the MAC-verified plaintext our anchored "
                "receiver model recovers; L: the record histories of depth<=2 (thorough 3) spoken by two live OpenSSL endpoints for 17 negotiable classes; "
                "A: all table suites x valid versions x EtM/hs-secret variants, fixed 10-record history (+16384 for class "
                f"representatives); B: per class ({len(classes())} classes) every application-record history of depth<={n} over "
                "{c,s} x {0,1,block-boundary,300}; A also: sender-chosen explicit AEAD nonces (random / counter from 1 / high bits) for every TLS 1.2 GCM/CCM suite; C: handshake-shape deviations k<=2 (incl. abbreviated handshakes, 0.5-RTT data, tickets, padding, the first ciphertext byte of the Finished records); D: 3 segmentations x IPv4/IPv6, full-duplex and merged-segment captures, TCP FIN on the last data segment / in segments of its own, 300 records per direction. "
                "non-trivial: both directions exported >=1 byte (layers A,C,D) or the history contains >=2 records (B); distinct "
                "= distinct scenario descriptors. states = nodes of the history trees (B), transitions = edges",
        "exhaustive": True,
        "bounds": {"history_depth": n, "lengths": "0,1,boundary,300", "shape_deviations": 2},
        "min_nontrivial": 500,
        "chunksize": 1,
        "assumptions": [
            "peer model mc/model/tls.py (sender side, written from the RFCs; anchored on the repository's real captures "
            "and a live OpenSSL peer by mc/validate.py)",
            "application data bytes are drawn from VERIF_SEED, not enumerated: the decryption code has no data-dependent "
            "control flow apart from CBC padding length, which the length alphabet steers",
            "excluded as the property says: compression, renegotiation, TLS 1.3 KeyUpdate/0-RTT/HRR, data after an alert, "
            "4-tuple reuse; handshake messages fragmented across records (only grouping is claimed)",
        ],
    }


def table_codes():
    harness.load()
    import tlexport.cipher_suite_parser as csp
    return sorted(int.from_bytes(k, "big") for k in csp.cipher_suites)


SHAPES_LEGACY = {
    "abbreviated": [True],
    "server_group": ["all_in_one", (1, 3), (2, 2), (3, 1), (1, 1, 2), (1, 2, 1), (2, 1, 1)],
    "client_group": ["coalesced"],
    "sid_len": [0, 1],
    "exts": ["none", "ems", "many", "unknown"],
    "tickets": [1],
    "pad_blocks": [1, 3],
    # first byte of the encrypted Finished records where the sender chooses it (explicit IV / nonce): the values of the
    # handshake message types a parser might mistake it for
    "fin_first_byte": [0x01, 0x02, 0x14, 0x16],
}
SHAPES_13 = {
    "ccs13": [False],
    "early_s": [1, 2],
    "pad13": [1, 200],
    "pad13_hs": [1, 17],
    "tickets": [1, 2],
    "ticket_pos": ["between", "after"],
    "enc_flight_split": [(1, 3), (2, 2), (3, 1), (1, 1, 2), (1, 2, 1), (2, 1, 1), (1, 1, 1, 1)],
    "sid_len": [0, 1],
    "exts": ["sv_last", "unknown", "many"],
}
SHAPE_CLASSES = [(V.TLS12, 0xC02F, False, True), (V.TLS12, 0x002F, False, True), (V.TLS12, 0x003C, True, True),
                 (V.TLS11, 0x000A, False, True), (V.TLS10, 0x002F, False, True), (V.TLS10, 0x0005, False, True),
                 (V.SSL30, 0x0035, False, True), (V.TLS13, 0x1301, False, True), (V.TLS13, 0x1303, False, False)]


def cases(tier, seed):
    # A
    for code in table_codes():
        yield {"layer": "A", "suite": code, "seed": seed, "big": tier == "thorough"}
    # B
    depth = 3 if tier == "quick" else 4
    for (v, code, etm, hs) in classes():
        for first in range(8):
            yield {"layer": "B", "v": v, "suite": code, "etm": etm, "hs": hs, "depth": depth, "first": first, "seed": seed}
    # C
    for (v, code, etm, hs) in SHAPE_CLASSES:
        menu = SHAPES_13 if v == V.TLS13 else SHAPES_LEGACY
        dims = [d for d in menu if not (v == V.SSL30 and d in ("exts", "pad_blocks"))]
        yield {"layer": "C", "v": v, "suite": code, "etm": etm, "hs": hs, "dim": None, "seed": seed}
        for d in dims:
            yield {"layer": "C", "v": v, "suite": code, "etm": etm, "hs": hs, "dim": d, "seed": seed}
    # D
    for (v, code, etm, hs) in classes():
        yield {"layer": "D", "v": v, "suite": code, "etm": etm, "hs": hs, "seed": seed}
    # R: the repository's own captures of real stacks (ground truth: the anchored model's receiver side, MAC-verified)
    import glob
    import os
    for f in sorted(glob.glob(os.path.join(harness.SRC, "test", "testfiles", "*.pcapng")) +
                    glob.glob(os.path.join(harness.SRC, "test", "incomplete_pcaps", "*.pcapng"))):
        yield {"layer": "R", "file": os.path.relpath(f, harness.SRC), "seed": seed}
    # L: the same record histories spoken by two real OpenSSL endpoints (ground truth independent of our model)
    from ..model import live
    for li in range(len(live.LIVE_CLASSES)):
        for first in range(8):
            yield {"layer": "L", "live": li, "first": first, "depth": 2 if tier == "quick" else 3, "seed": seed}


def execute(scn, seed, v6=False, cutter=None, mss=1460, duplex=False, merged=False, fin="none"):
    conn = scen.tls_conn(scn, seed)
    ends = cap.Ends(3, v6=v6)
    base = scen.tls_packets(conn, cutter=cutter, mss=mss, merged=merged, fin=fin)
    if duplex:
        base = scen.duplex_interleave(base, scen.first_app_packet(conn, base))
    pk = cap.stamp(base, {0: ends})
    res = scen.run(pk, conn.keylog)
    try:
        an = scen.analyse(res)
    except scen.ExportError as e:
        return conn, None, (e.kind, e.detail), res
    r = scen.compare_tls(an, ends, conn)
    if r is None:
        extra = [k for k, c in an["tcp"].items() if c["client"] != ends.client.key()]
        if extra or an["udp"]:
            r = ("foreign_flow_in_output", str(extra)[:200])
    return conn, an, r, res


def base_scn(v, code, etm, hs):
    return {"version": v, "suite": code, "etm": etm, "hs_secrets": hs}


def run_case(case):
    harness.load()
    seed = case["seed"]
    fails, nontriv, outcomes = [], [], set()
    n = 0
    count = {}
    sample = None

    def one(scn, sig, count_nontrivial=True, **kw):
        nonlocal n, sample
        conn, an, r, res = execute(scn, seed, **kw)
        n += 1
        key = engine.jhash([sig, {k: str(x) for k, x in scn.items()}, {k: str(x) for k, x in kw.items() if k != "cutter"}])
        if r is not None:
            fails.append({"kind": r[0], "sig": sig, "detail": r[1]})
        else:
            if count_nontrivial and conn.plain["c"] and conn.plain["s"]:
                nontriv.append(key)
            outcomes.add(scen.digest(res.out))
        if sample is None and r is None:
            sample = {"scenario": {k: str(x) for k, x in scn.items()}, "exported_c2s": len(conn.plain["c"]),
                      "exported_s2c": len(conn.plain["s"]), "records": [repr(x) for x in conn.records][:12]}
        return r

    layer = case["layer"]
    if layer == "A":
        code = case["suite"]
        try:
            sp = iana.parse_name(scen.suite_name(code))
        except Exception:
            # a table code point our registry does not know is C14's finding, not C01's
            return {"n": 0, "fails": [], "nontrivial": [], "outcomes": []}
        reps = {(c[0], c[1], c[2], c[3]) for c in classes()}
        for v in (V.SSL30, V.TLS10, V.TLS11, V.TLS12, V.TLS13):
            if not tls.suite_valid_for(sp, v):
                continue
            etms = [False, True] if sp.mode == "CBC" else [False]
            hss = [True, False] if v == V.TLS13 else [True]
            for etm in etms:
                for hs in hss:
                    scn = base_scn(v, code, etm, hs)
                    hist = list(FIXED_HISTORY)
                    if case["big"] or (v, code, etm, hs) in reps:
                        hist.append(BIG)
                        hist.append(("c", 2))
                    scn["history"] = hist
                    if v == V.TLS13:
                        scn["tickets"] = 1
                    one(scn, {"layer": "A", "class": class_name(v, code, etm, hs), "suite": f"{code:#06x}"})
                    if v == V.TLS12 and sp.mode in ("GCM", "CCM"):
                        # the explicit part of the nonce is the sender's choice (RFC 5288 section 3): random bytes, a counter
                        # that does not start at 0, a counter with the high bits set
                        for pol in ("random", "from1", "high"):
                            one(dict(scn, explicit_nonce=pol), {"layer": "A", "class": class_name(v, code, etm, hs), "suite": f"{code:#06x}",
                                                                "explicit_nonce": pol})
    elif layer == "B":
        v, code, etm, hs = case["v"], case["suite"], case["etm"], case["hs"]
        lens = [0, 1, boundary_len(code, etm), 300]
        alpha = [(d, l) for d in ("c", "s") for l in lens]
        depth = case["depth"]
        cname = class_name(v, code, etm, hs)
        nodes = 0

        def rec(hist):
            nonlocal nodes
            nodes += 1
            scn = base_scn(v, code, etm, hs)
            scn["history"] = hist
            r = one(scn, {"layer": "B", "class": cname, "history": [f"{d}{l}" for d, l in hist]}, count_nontrivial=False)
            if len(hist) >= 2 and r is None:
                nontriv.append("B/" + cname + "/" + "".join(f"{d}{l}." for d, l in hist))
            if len(hist) < depth:
                for a in alpha:
                    rec(hist + [a])
        rec([alpha[case["first"]]])
        count["states"] = nodes
        count["transitions"] = nodes
    elif layer == "C":
        v, code, etm, hs = case["v"], case["suite"], case["etm"], case["hs"]
        menu = SHAPES_13 if v == V.TLS13 else SHAPES_LEGACY
        dims = [d for d in menu if not (v == V.SSL30 and d in ("exts", "pad_blocks"))]
        cname = class_name(v, code, etm, hs)
        hist = [("c", 200), ("s", 500), ("s", 40), ("c", 10)]
        if case["dim"] is None:
            scn = base_scn(v, code, etm, hs)
            scn["history"] = hist
            one(scn, {"layer": "C", "class": cname, "shape": {}})
        else:
            d1 = case["dim"]
            for val1 in menu[d1]:
                scn = base_scn(v, code, etm, hs)
                scn["history"] = hist
                scn[d1] = val1
                if skip_shape(scn):
                    continue
                one(scn, {"layer": "C", "class": cname, "shape": {d1: str(val1)}})
                for d2 in dims:
                    if d2 <= d1:
                        continue
                    for val2 in menu[d2]:
                        s2 = dict(scn)
                        s2[d2] = val2
                        if skip_shape(s2):
                            continue
                        one(s2, {"layer": "C", "class": cname, "shape": {d1: str(val1), d2: str(val2)}})
    elif layer == "R":
        import os
        from .. import validate
        from ..model import opener, net
        path = os.path.join(harness.SRC, case["file"])
        data = open(path, "rb").read()
        kl = open(os.path.join(harness.SRC, "test", "keylog.log")).read()
        names = tls.table_suites()
        res = harness.run_tlexport(data, kl, ["-p", "443", "44330", "5556"])
        n += 1
        sig = {"layer": "R", "file": case["file"]}
        try:
            an = scen.analyse(res)
            opened = 0
            for k, st in validate.tcp_streams_of(validate.read_capture(data)).items():
                if not st["c"].startswith(b"\x16") or not st["s"].startswith(b"\x16"):
                    continue
                try:
                    o = opener.open_connection(st, [l.strip() for l in kl.splitlines() if l.strip()], names)
                except opener.OpenError:
                    continue
                opened += 1
                proto, a, b = k
                conv = [c for c in an["tcp"].values() if {c["client"], c["server"]} == {a, b}]
                got = (conv[0]["c2s"], conv[0]["s2c"]) if conv else (b"", b"")
                if got != (o["app"]["c"], o["app"]["s"]):
                    fails.append({"kind": "stream_mismatch", "sig": sig,
                                  "detail": f"exported {len(got[0])}+{len(got[1])} bytes, the capture carries {len(o['app']['c'])}+{len(o['app']['s'])}"})
                elif o["app"]["c"] or o["app"]["s"]:
                    nontriv.append(engine.jhash(sig))
                    outcomes.add(scen.digest(res.out))
                    if sample is None:
                        sample = {"real_capture": case["file"], "c2s": len(got[0]), "s2c": len(got[1])}
            if not opened:
                count["real_capture_not_opened_by_model"] = 1
        except scen.ExportError as e:
            fails.append({"kind": e.kind, "sig": sig, "detail": e.detail})
    elif layer == "L":
        from ..model import live
        ver, cipher = live.LIVE_CLASSES[case["live"]]
        lens = [0, 1, 15, 300]
        alpha = [(d, l) for d in ("c", "s") for l in lens]
        nodes = 0

        def rec_l(hist):
            nonlocal n, nodes, sample
            nodes += 1
            rng = scen.rng_for(seed, "live", ver, cipher, str(hist))
            sig = {"layer": "L", "class": f"openssl/{ver}/{cipher}", "history": [f"{d}{l}" for d, l in hist]}
            try:
                r = live.run(ver, cipher, hist, lambda d, i, k: rng.randbytes(k))
            except live.LiveError as e:
                count["live_unavailable"] = count.get("live_unavailable", 0) + 1
                return
            ends = cap.Ends(9)
            pk = cap.stamp(cap.tcp_packets(0, r["sends"]), {0: ends})
            res = scen.run(pk, r["keylog"])
            n += 1
            try:
                an = scen.analyse(res)
                c = scen.tcp_streams(an, ends)
                got = (c["c2s"], c["s2c"]) if c else (b"", b"")
                if got != (r["plain"]["c"], r["plain"]["s"]):
                    fails.append({"kind": "stream_mismatch", "sig": sig,
                                  "detail": f"exported {len(got[0])}+{len(got[1])} bytes, OpenSSL wrote {len(r['plain']['c'])}+{len(r['plain']['s'])}"})
                else:
                    if len(hist) >= 2:
                        nontriv.append(engine.jhash(sig))
                    if sample is None:
                        sample = {"live": sig, "negotiated": list(r["cipher"])}
            except scen.ExportError as e:
                fails.append({"kind": e.kind, "sig": sig, "detail": e.detail})
            if len(hist) < case["depth"]:
                for a in alpha:
                    rec_l(hist + [a])
        rec_l([alpha[case["first"]]])
        count["states"] = nodes
        count["transitions"] = nodes
    elif layer == "D":
        v, code, etm, hs = case["v"], case["suite"], case["etm"], case["hs"]
        cname = class_name(v, code, etm, hs)
        scn = base_scn(v, code, etm, hs)
        scn["history"] = [("c", 200), ("s", 700), ("s", 40), ("c", 10), ("s", 1)]
        for v6 in (False, True):
            for mss in (1460, 100, 9):
                one(scn, {"layer": "D", "class": cname, "v6": v6, "mss": mss}, v6=v6, mss=mss)
        # full-duplex capture order in the application phase (packets of one direction between the segments of a record
        # of the other), records sharing segments
        scn2 = dict(scn, history=[("c", 1000), ("s", 30), ("c", 900), ("s", 1100), ("c", 20), ("s", 700), ("c", 5)])
        one(scn2, {"layer": "D", "class": cname, "capture": "duplex"}, duplex=True, mss=400)
        one(scn2, {"layer": "D", "class": cname, "capture": "duplex_merged"}, duplex=True, mss=333, merged=True)
        # connection teardown: FIN on the last data segment of each direction / FIN in segments of their own
        for fin in ("on_last_data", "separate"):
            one(scn, {"layer": "D", "class": cname, "tcp_fin": fin}, fin=fin, mss=1460)
            one(scn, {"layer": "D", "class": cname, "tcp_fin": fin, "mss": 100}, fin=fin, mss=100)
        # long histories: 300 records per direction (the per-direction record counter passes 255 and 256; many records per segment)
        scn3 = dict(scn, history=[("c", 3)] * 150 + [("s", 5)] * 300 + [("c", 1)] * 150 + [("s", 0), ("c", 2), ("s", 7)])
        one(scn3, {"layer": "D", "class": cname, "capture": "300 records per direction"}, merged=True, mss=1460)

    r = {"n": n, "fails": fails, "nontrivial": nontriv, "outcomes": sorted(outcomes), "count": count}
    if sample:
        r["sample"] = sample
    return r


def skip_shape(scn):
    """combinations the protocol does not allow"""
    if scn.get("abbreviated") and (scn.get("tickets") or scn.get("server_group") or scn.get("client_group")):
        return True       # an abbreviated handshake has a single server message / no ticket
    if scn.get("ticket_pos") and not scn.get("tickets"):
        return True
    return False
