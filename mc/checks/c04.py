"""C04 - concurrent connections are demultiplexed; each is exported as if it were alone.

schedules(threads, bound): a 'thread' is one connection's packet list, a step is one capture
packet, the scheduler is the capture order.  All order-preserving merges with at most b context
switches (all merges for pairs of minimal flows in the thorough tier).
Oracle (differential): for every connection i, the output packets of flow i in export(merged)
equal - frames and timestamps - those of export(the same capture filtered to connection i), and
the output contains nothing else.
"""
import itertools
from .. import harness, scen, engine
from ..model import cap, tls, net

PROP = "C04"
LEVEL = "model_checking"

KINDS = {
    "tls12": ("tls", {"version": tls.TLS12, "suite": 0xC02F, "client_group": "coalesced", "history": [("c", 20), ("s", 30)]}),
    "tls13": ("tls", {"version": tls.TLS13, "suite": 0x1301, "history": [("c", 20), ("s", 30)]}),
    "tls10": ("tls", {"version": tls.TLS10, "suite": 0x002F, "client_group": "coalesced", "history": [("c", 20), ("s", 30), ("s", 7)]}),
    "quic_gcm": ("quic", {"suite": 0x1301, "coalesce": "ini+hs", "script": [("c", [(0, 25)]), ("s", [(0, 35)]), ("c", [(4, 5)])]}),
    "quic_chacha": ("quic", {"suite": 0x1303, "coalesce": "ini+hs", "pn_len": 1, "script": [("c", [(0, 25)]), ("s", [(0, 35)]), ("c", [(4, 5)])]}),
    "ssl3_rc4": ("tls", {"version": tls.SSL30, "suite": 0x0005, "client_group": "coalesced", "history": [("c", 20), ("s", 30), ("s", 7), ("c", 3)]}),
    "quic_bigpn": ("quic", {"suite": 0x1302, "coalesce": "ini+hs", "pn_len": 3, "pn_start": 70000,
                            "script": [("c", [(0, 25)]), ("s", [(0, 35)]), ("c", [(4, 5)])]}),
    "quic_split": ("quic", {"suite": 0x1301, "coalesce": "ini+hs", "ch_split": {"cuts": (100,), "order": (1, 0), "packets": True},
                            "script": [("c", [(0, 25)]), ("s", [(0, 35)])]}),
}
RELATIONS = ["different_hosts", "same_hosts_diff_cport", "same_client_two_servers", "same_server_443_44330", "v4_v6", "crossed_hosts",
             "resumed_session", "port_in_two_roles", "tcp_to_quic_port", "v4_and_numerically_equal_v6", "first_ends_inside_record", "two_clients_same_port_one_server"]
# two_clients_same_port_one_server: two client hosts that happen to use the same source port towards one server address and port
# first_ends_inside_record: the capture stops while the first connection is in the middle of a record (its last data segment
# holds only the first half of it) - whatever that leaves behind must not reach the other connection
# v4_and_numerically_equal_v6: a.b.c.d:p -> e.f.g.h:443 next to [::a.b.c.d]:p -> [::e.f.g.h]:443 (same ports)
# resumed_session: the second connection resumes the first (same master secret, abbreviated handshake, fresh randoms);
# port_in_two_roles: the first connection is QUIC to a port outside the configured list and that number is the second
# connection's client port; tcp_to_quic_port: the second is TCP to that (unconfigured) port and must stay unexported
CID_RELATIONS = ["distinct", "both_clients_zero", "server_cid_prefix", "client_cid_prefix", "both_zero_zero", "short_id_vs_zero_length",
                 "same_client_cid", "same_server_cid", "client_cid_is_others_server_cid"]


def describe(tier):
    q = tier == "quick"
    return {
        "rule": "all unordered pairs (incl. same kind) of {TLS1.2, TLS1.3, TLS1.0-CBC, QUIC-GCM, QUIC-ChaCha, QUIC with the ClientHello split over two reordered Initials, SSL3-RC4, QUIC with large packet numbers} x 12 endpoint relations (different hosts, same hosts, one client two servers, 443/44330, v4/v6, crossed hosts, resumed session, a port number in two roles, TCP to a QUIC server's port, numerically equal v4/v6 addresses, "
                "the first connection ending inside a record, two clients with one source port) (x 9 connection-ID relations for QUIC pairs: distinct, zero-length, prefixes, equal client / server IDs, short ID vs zero-length); every order-preserving merge with <= "
                + ("3 context switches" if q else "5 context switches, and ALL merges for the pairs of the two shortest flows") +
                "; triples and one 4-set with unrelated traffic (DNS-like UDP, HTTP on 80, ARP) with <= "
                + ("1" if q else "2") + " switch(es) per pair of neighbours; key-log line permutations on one schedule "
                "per set. non-trivial: every connection of the set exports data in its solo run and the merged run is "
                "equal per flow; distinct = distinct (set, schedule). states = schedules, transitions = packets scheduled",
        "exhaustive": True,
        "bounds": {"context_switches": 3 if q else 5},
        "min_nontrivial": 500,
        "assumptions": [
            "differential oracle: no hand-written expectation; both sides use the timestamps of the merged capture",
            "schedules bounded by context switches (CHESS-style); the thorough tier enumerates all merges for minimal pairs",
            "connections use distinct 4-tuples (reuse of a 4-tuple is outside C01/C04)",
        ],
    }


def make_flows(ka, kb, rel, cidrel, seed):
    """two flows with the requested endpoint / CID relation"""
    specs = []
    if rel in ("port_in_two_roles", "tcp_to_quic_port") and KINDS[ka][0] != "quic":
        ka, kb = kb, ka
    for idx, k in enumerate((ka, kb)):
        kind, scn = KINDS[k]
        scn = dict(scn)
        e = {"idx": 10 + idx}
        if rel == "same_hosts_diff_cport" and idx == 1:
            e.update(client_ip="10.11.0.2", server_ip="192.0.12.80")
        if rel == "same_client_two_servers" and idx == 1:
            e.update(client_ip="10.11.0.2", client_port=40000 + 17 * 10 + 1)
        if rel == "same_server_443_44330" and idx == 1:
            e.update(server_ip="192.0.12.80", server_port=44330, client_ip="10.11.0.2")
        if rel == "v4_v6" and idx == 1:
            e.update(v6=True)
        if rel == "v4_and_numerically_equal_v6" and idx == 1:
            e.update(v6=True, client_ip="::10.11.0.2", server_ip="::192.0.12.80", client_port=40000 + 17 * 10 + 1)
        if rel == "two_clients_same_port_one_server" and idx == 1:
            e.update(client_ip="10.77.0.9", server_ip="192.0.12.80", client_port=40000 + 17 * 10 + 1)
        if rel == "crossed_hosts" and idx == 1:
            # the two hosts talk to each other in both roles with the same port numbers: A:p -> B:443 and B:p -> A:443
            e.update(client_ip="192.0.12.80", server_ip="10.11.0.2", client_port=40000 + 17 * 10 + 1)
        if rel == "resumed_session" and idx == 1:
            scn["master"] = specs[0].conn.master
            scn["abbreviated"] = True
            e.update(client_ip="10.11.0.2", server_ip="192.0.12.80")
        if rel in ("port_in_two_roles", "tcp_to_quic_port") and idx == 0:
            e.update(server_port=4433)
        if rel == "port_in_two_roles" and idx == 1:
            e.update(client_port=4433)
        if rel == "tcp_to_quic_port" and idx == 1:
            e.update(server_port=4433)
        if kind == "quic" and "ch_split" in scn and idx == 1:
            scn["offered"] = [scn["suite"], 0x1302, 0x1303, 0x1304]     # ClientHellos of different lengths, same split offset
        if kind == "quic" and cidrel != "distinct":
            base = scen.rng_for(seed, "c04cid", ka, kb).randbytes(8)
            if cidrel == "both_clients_zero":
                scn["ccid_len"] = 0
            elif cidrel == "both_zero_zero":
                scn["ccid_len"] = 0
                scn["scid_len"] = 0
            elif cidrel == "server_cid_prefix":
                scn["scid_bytes"] = base if idx == 0 else base + b"\x99\x98\x97\x96"
            elif cidrel == "same_client_cid":
                scn["ccid_bytes"] = base                   # two clients that happen to choose the same source connection id
            elif cidrel == "same_server_cid":
                scn["scid_bytes"] = base
            elif cidrel == "client_cid_is_others_server_cid":
                scn["ccid_bytes" if idx == 0 else "scid_bytes"] = base
            elif cidrel == "client_cid_prefix":
                scn["ccid_bytes"] = base[:4] if idx == 0 else base[:4] + b"\x55\x66"
        ends = cap.Ends(e["idx"], v6=e.get("v6", False), server_port=e.get("server_port", 443), client_port=e.get("client_port"),
                        client_ip=e.get("client_ip"), server_ip=e.get("server_ip"))
        if kind == "tls":
            conn = scen.tls_conn(scn, seed, key=("c04", idx))
            pk = scen.tls_packets(conn, conn_id=idx, handshake=False)
        else:
            conn = scen.quic_conn(scn, seed, key=("c04", idx))
            pk = scen.quic_packets(conn, conn_id=idx)
        specs.append(scen.Flow(kind, conn, ends, idx, pk))
    if rel == "first_ends_inside_record":
        f0 = specs[0]
        last = [p for p in f0.pkts if p.payload][-1]
        last.payload = last.payload[:max(6, len(last.payload) // 2)]
    if cidrel == "short_id_vs_zero_length" and all(f.kind == "quic" for f in specs):
        # connection 1's client uses a zero-length ID; connection 0's client uses the ONE-byte ID that equals the first
        # protected byte of one of connection 1's server->client 1-RTT packets (IDs are chosen freely, so this is legal)
        kind1, scn1 = KINDS[kb]
        scn1 = dict(scn1, ccid_len=0)
        c1 = scen.quic_conn(scn1, seed, key=("c04", 1, "z"))
        tgt = [g for g in c1.dgrams if g.dir == "s" and g.stream and not g.data[0] & 0x80]
        x = bytes([tgt[-1].data[1]])
        kind0, scn0 = KINDS[ka]
        c0 = scen.quic_conn(dict(scn0, ccid_bytes=x), seed, key=("c04", 0, "z"))
        specs = [scen.Flow("quic", c0, specs[0].ends, 0, scen.quic_packets(c0, conn_id=0)),
                 scen.Flow("quic", c1, specs[1].ends, 1, scen.quic_packets(c1, conn_id=1))]
    return specs


def noise_packets():
    e = {90: cap.Ends(90), 91: cap.Ends(91, server_port=80)}
    e[90].server.port = 53
    dns = cap.udp_packets(90, [("c", b"\x12\x34\x01\x00\x00\x01" + b"\x00" * 6 + b"\x07example\x03com\x00\x00\x01\x00\x01"),
                               ("s", b"\x12\x34\x81\x80" + b"\x00" * 20)])
    http = cap.tcp_packets(91, [("c", b"GET / HTTP/1.1\r\n\r\n"), ("s", b"HTTP/1.1 204 No Content\r\n\r\n")], handshake=False)
    return e, dns, http


def cases(tier, seed):
    kinds = list(KINDS)
    q = tier == "quick"
    for a in range(len(kinds)):
        for b in range(a, len(kinds)):
            ka, kb = kinds[a], kinds[b]
            both_quic = KINDS[ka][0] == "quic" and KINDS[kb][0] == "quic"
            for rel in RELATIONS:
                if "quic_split" in (ka, kb) and rel not in ("different_hosts", "same_hosts_diff_cport"):
                    continue
                if ("ssl3_rc4" in (ka, kb) or "quic_bigpn" in (ka, kb)) and rel not in ("different_hosts", "resumed_session"):
                    continue
                if rel == "crossed_hosts" and (ka != kb or ka in ("tls13", "quic_chacha", "quic_split")):
                    continue
                if rel == "two_clients_same_port_one_server" and "quic_split" in (ka, kb):
                    continue
                if rel == "first_ends_inside_record" and (KINDS[ka][0] != "tls" or "quic_split" in (ka, kb)):
                    continue
                if rel == "v4_and_numerically_equal_v6" and "quic_split" in (ka, kb):
                    continue
                if rel == "resumed_session" and (ka != kb or ka not in ("tls12", "tls10", "ssl3_rc4")):
                    continue
                if rel == "port_in_two_roles" and KINDS[ka][0] != "quic" and KINDS[kb][0] != "quic":
                    continue
                if rel == "tcp_to_quic_port" and not (KINDS[ka][0] != KINDS[kb][0]):
                    continue
                cidrels = CID_RELATIONS if (both_quic and "quic_split" not in (ka, kb) and "quic_bigpn" not in (ka, kb) and rel in ("different_hosts", "same_hosts_diff_cport")) else ["distinct"]
                for cr in cidrels:
                    yield {"set": "pair", "a": ka, "b": kb, "rel": rel, "cid": cr, "switches": 3 if q else 5, "seed": seed,
                           "all": (not q) and rel == "different_hosts" and cr == "distinct"}
    for trip in (("tls12", "quic_gcm", "tls13"), ("quic_gcm", "quic_chacha", "tls10")):
        yield {"set": "triple", "kinds": list(trip), "switches": 1 if q else 2, "seed": seed}
    yield {"set": "four", "kinds": ["tls12", "tls13", "quic_gcm", "quic_chacha"], "switches": 1 if q else 2, "seed": seed}


def export_per_flow(pkts, keylog, flows, sig, fails, n):
    res = scen.run(pkts, keylog)
    try:
        an = scen.analyse(res)
    except scen.ExportError as e:
        fails.append({"kind": e.kind, "sig": sig, "detail": e.detail})
        return None, None, res
    return an, [scen.flow_raw_packets(an, f) for f in flows], res


def merges_n(lists, max_switches):
    """order-preserving merges of n lists as index sequences, at most max_switches context switches"""
    n = len(lists)
    lens = [len(l) for l in lists]
    out = []

    def rec(pos, acc, last, sw):
        if all(pos[i] == lens[i] for i in range(n)):
            out.append(tuple(acc))
            return
        for i in range(n):
            if pos[i] == lens[i]:
                continue
            nsw = sw + (1 if last is not None and last != i else 0)
            if max_switches is not None and nsw > max_switches:
                continue
            pos[i] += 1
            acc.append(i)
            rec(pos, acc, i, nsw)
            acc.pop()
            pos[i] -= 1
    rec([0] * n, [], None, 0)
    return out


def run_case(case):
    harness.load()
    seed = case["seed"]
    fails, nontriv, outcomes = [], [], set()
    n = 0
    if case["set"] == "pair":
        flows = make_flows(case["a"], case["b"], case["rel"], case["cid"], seed)
        noise = []
        ends = {f.id: f.ends for f in flows}
        setname = {"a": case["a"], "b": case["b"], "rel": case["rel"], "cid": case["cid"]}
    else:
        flows = []
        for idx, k in enumerate(case["kinds"]):
            kind, scn = KINDS[k]
            e = cap.Ends(20 + idx, v6=(idx == 2))
            if kind == "tls":
                conn = scen.tls_conn(scn, seed, key=("c04n", idx))
                pk = scen.tls_packets(conn, conn_id=idx, handshake=False)
            else:
                conn = scen.quic_conn(scn, seed, key=("c04n", idx))
                pk = scen.quic_packets(conn, conn_id=idx)
            flows.append(scen.Flow(kind, conn, e, idx, pk))
        ne, dns, http = noise_packets()
        ends = {f.id: f.ends for f in flows}
        ends.update(ne)
        noise = dns + http
        setname = {"set": case["set"], "kinds": case["kinds"]}
    keylog = []
    for f in flows:
        keylog += f.keylog()
    lists = [f.pkts for f in flows]
    if noise:
        lists = lists + [noise]
    scheds = merges_n(lists, None if case.get("all") else case["switches"])
    solo_ok = None
    trans = 0
    sample = None
    for si, sched in enumerate(scheds):
        pos = [0] * len(lists)
        merged = []
        for i in sched:
            merged.append(lists[i][pos[i]].copy())
            pos[i] += 1
        cap.stamp(merged, ends)
        if any(p.proto == "arp" for p in merged):
            pass
        sig = dict(setname, schedule="".join(str(i) for i in sched))
        an, obs, res = export_per_flow(merged, keylog, flows, sig, fails, n)
        n += 1
        trans += len(sched)
        if an is None:
            continue
        ok = True
        for fi, f in enumerate(flows):
            solo = [p for p in merged if p.conn == f.id]
            an_s, obs_s, _ = export_per_flow(solo, keylog, [f], dict(sig, solo=fi), fails, n)
            n += 1
            if an_s is None:
                ok = False
                continue
            if case.get("rel") == "tcp_to_quic_port" and f.kind == "tls":
                if obs_s[0] or obs[fi]:
                    fails.append({"kind": "unselected_port_exported", "sig": dict(setname, flow=fi),
                                  "detail": f"TCP flow to a port that was not selected: {len(obs_s[0])} packets alone, {len(obs[fi])} merged"})
                    ok = False
                continue
            if not obs_s[0]:
                fails.append({"kind": "solo_exports_nothing", "sig": dict(setname, flow=fi), "detail": "vacuous: the connection alone exports nothing"})
                ok = False
            if obs[fi] != obs_s[0]:
                fails.append({"kind": "flow_differs_from_solo", "sig": dict(setname, flow=f.kind + str(fi)),
                              "sub": {"schedule": "".join(str(i) for i in sched)},
                              "detail": f"schedule {''.join(str(i) for i in sched)}: flow {fi} has {len(obs[fi])} packets in the merged "
                                        f"export, {len(obs_s[0])} alone"})
                ok = False
        total = sum(len(o) for o in obs)
        extra = [fr for _, fr in an["packets"] if fr.payload] if False else None
        if total != len(an["packets"]):
            known = set()
            for o in obs:
                known.update(raw for _, raw in o)
            foreign = [fr for _, fr in an["packets"] if fr.raw not in known]
            fails.append({"kind": "foreign_packets_in_output", "sig": setname,
                          "detail": f"{len(foreign)} packets of no modelled connection, e.g. {foreign[0]!r}"})
            ok = False
        if ok:
            nontriv.append(engine.jhash(sig))
            outcomes.add(scen.digest(res.out))
            if sample is None:
                sample = {"set": setname, "schedule": sig["schedule"], "flows": [f.kind for f in flows],
                          "packets_per_flow_in_output": [len(o) for o in obs]}
    # key-log permutations on the round-robin schedule
    merged = cap.stamp([p.copy() for p in scen.round_robin(lists)], ends)
    an0, obs0, _ = export_per_flow(merged, keylog, flows, setname, fails, n)
    n += 1
    if an0 is not None:
        if len(keylog) <= 6:
            perms = itertools.permutations(keylog)
        else:
            perms = [keylog[i:] + keylog[:i] for i in range(len(keylog))] + [keylog[::-1]] + [sorted(keylog)]
        for perm in perms:
            an, obs, res = export_per_flow(merged, list(perm), flows, dict(setname, keylog="permuted"), fails, n)
            n += 1
            if an is not None and obs != obs0:
                fails.append({"kind": "keylog_order_changes_export", "sig": setname, "detail": "export differs when key-log lines are reordered"})
    uniq = {}
    for f in fails:
        uniq.setdefault(engine.jhash([f["kind"], f["sig"]]), f)
    r = {"n": n, "fails": list(uniq.values()), "nontrivial": nontriv, "outcomes": sorted(outcomes),
         "count": {"states": len(scheds), "transitions": trans, "traces_validated_against_impl": n}}
    if sample:
        r["sample"] = sample
    return r
