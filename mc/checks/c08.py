"""C08 - cutting the capture at any point only removes a suffix of the export.

faults = crash points: for every capture of a corpus EVERY cut position 0..N.  Oracle: for every
connection and direction export(prefix_i) is a prefix of export(prefix_{i+1}) (TCP: byte streams, QUIC:
list of datagram payloads) and of the modelled plaintext; the empty capture gives a valid empty output.
The arrival-event graphs of C05 assert the same clause in every non-terminal state."""
from .. import harness, scen, engine
from ..model import cap, tls

PROP = "C08"
LEVEL = "fault_enumeration"

TLS_CLASSES = [(tls.SSL30, 0x0035, False), (tls.TLS10, 0x0005, False), (tls.TLS10, 0x002F, False), (tls.TLS11, 0x000A, False),
               (tls.TLS12, 0xC02F, False), (tls.TLS12, 0x003C, True), (tls.TLS12, 0xCCA8, False), (tls.TLS13, 0x1301, False),
               (tls.TLS13, 0x1303, False)]
TLS_SHAPES = ["per_record", "span3", "coalesced", "mss7", "reordered", "duplicated", "coalesced_retransmission", "seq_wrap", "garbage_tail", "swapped_records", "merged211"]
QUIC_SHAPES = ["default", "coalesced", "key_update", "zero_rtt", "chacha_retry", "two_flows", "rebinding", "rebinding_early", "tls_resumed_interleaved", "ch_overlap"]


def describe(tier):
    return {
        "rule": f"{len(TLS_CLASSES)} TLS classes x {len(TLS_SHAPES)} packetisations (one record per segment, records spanning 3 "
                "segments, coalesced flights with two records per segment, 7-byte segments, a displaced segment, a retransmission, a coalescing retransmission, sequence numbers wrapping at 2^32 inside the data, a final record of 21 arbitrary bytes, two whole-record segments captured in swapped order) + "
                f"{len(QUIC_SHAPES)} QUIC captures (default, coalesced, key updates, 0-RTT, ChaCha20 with Retry, two interleaved flows, a resumed TLS session completed before the session it resumes, the client's UDP port changing in mid-connection (NAT rebinding) late and early); "
                "for QUIC the exported DATAGRAMS (addresses and payload) of a cut must be a prefix of the next cut's, also with -a; "
                "every cut position 0..N of every capture. non-trivial: a cut whose export is strictly longer than the previous "
                "cut's; distinct = distinct (capture, cut)",
        "exhaustive": True,
        "bounds": {"cuts": "all positions"},
        "min_nontrivial": 100,
        "assumptions": ["peer models give the true plaintext; a cut is a prefix of the capture file's packet list"],
    }


def cases(tier, seed):
    if tier == "thorough":
        from . import c01
        for (v, code, etm, hs) in c01.classes():
            if not hs:
                continue
            for sh in TLS_SHAPES:
                if sh == "garbage_tail" and code in (0x0005, 0x0004):
                    continue      # RC4 has no framing a 21-byte record could violate (see the quick-tier list below)
                yield {"kind": "tls", "cls": -1, "vce": [v, code, etm], "shape": sh, "seed": seed}
    for ci in range(len(TLS_CLASSES)):
        for sh in TLS_SHAPES:
            if sh == "garbage_tail" and TLS_CLASSES[ci][1] in (0x0005, 0x0004):
                continue          # RC4 has no framing a 21-byte record could violate
            yield {"kind": "tls", "cls": ci, "shape": sh, "seed": seed}
    for sh in QUIC_SHAPES:
        yield {"kind": "quic", "shape": sh, "seed": seed}


def build(case):
    seed = case["seed"]
    if case["kind"] == "tls":
        v, code, etm = case["vce"] if case.get("vce") else TLS_CLASSES[case["cls"]]
        sh = case["shape"]
        scn = {"version": v, "suite": code, "etm": etm, "history": [("c", 150), ("s", 700), ("s", 40), ("c", 9), ("s", 2)]}
        if sh == "coalesced":
            scn["client_group"] = "coalesced"
            scn["server_group"] = "all_in_one"
        conn = scen.tls_conn(scn, seed)
        e = cap.Ends(4, v6=(case["cls"] % 2 == 1))
        mss = {"per_record": 1460, "span3": 300, "coalesced": 1460, "mss7": 7, "reordered": 300, "duplicated": 300,
               "coalesced_retransmission": 300, "seq_wrap": 300, "garbage_tail": 300, "swapped_records": 1460, "merged211": 211}[sh]
        if sh == "merged211":
            # consecutive writes share segments of 211 bytes: a segment holds the end of one record, whole records and the start of the next
            scn["history"] = [("c", 150), ("c", 30), ("c", 400), ("s", 700), ("s", 40), ("s", 3), ("c", 9), ("c", 60), ("s", 2)]
            conn = scen.tls_conn(scn, seed)
            pk = scen.tls_packets(conn, mss=mss, merged=True)
        elif sh == "coalesced":
            # merge consecutive sends of one direction so that one segment carries several records
            sends, out = scen.tls_sends(conn), []
            for d, b in sends:
                if out and out[-1][0] == d:
                    out[-1] = (d, out[-1][1] + b)
                else:
                    out.append((d, b))
            pk = cap.tcp_packets(0, out, mss=mss)
        elif sh == "seq_wrap":
            # both initial sequence numbers close below 2^32: the numbers wrap inside the handshake (client) / the data (server)
            hs_len = sum(len(b) for d, b in scen.tls_sends(conn) if d == "s") - len(conn.plain["s"])
            pk = scen.tls_packets(conn, mss=mss, isn=(0xFFFFFFFF - 40, (0xFFFFFFFF - hs_len - 350) & 0xFFFFFFFF))
        else:
            pk = scen.tls_packets(conn, mss=mss)
        data_idx = [i for i, p in enumerate(pk) if p.payload]
        if sh == "reordered":
            # displace the 2nd segment of the server's second flight behind its successor (never a first segment)
            srv = [i for i in data_idx if pk[i].dir == "s"]
            i = srv[len(srv) // 2]
            nxt = [j for j in srv if j > i]
            if nxt:
                p = pk.pop(i)
                pk.insert(nxt[0], p)
        if sh == "coalesced_retransmission":
            # a retransmission that carries the original segment together with its successor under the original's sequence
            # number (TCP may coalesce on retransmit), captured a little later
            ins = []
            for a in range(1, len(data_idx) - 1, 3):
                i = data_idx[a]
                nxt = [j for j in data_idx if j > i and pk[j].dir == pk[i].dir]
                if not nxt or pk[nxt[0]].seq != (pk[i].seq + len(pk[i].payload)) & 0xFFFFFFFF:
                    continue
                r = pk[i].copy()
                r.payload = pk[i].payload + pk[nxt[0]].payload
                r.end = pk[nxt[0]].end
                ins.append((min(len(pk), nxt[0] + 2), r))
            for at, r in sorted(ins, key=lambda x: -x[0]):
                pk.insert(at, r)
        if sh == "duplicated":
            for i in data_idx[2::3][::-1]:
                pk.insert(min(len(pk), i + 2), pk[i])
        if sh == "swapped_records":
            # one record per segment; the server's two consecutive application records are captured in swapped order: the later
            # one starts on a record boundary and could be framed on its own, but belongs behind the one still missing
            srv = [i for i in data_idx if pk[i].dir == "s"]
            a = [k for k in range(len(srv) - 1) if srv[k + 1] == srv[k] + 1 and pk[srv[k]].end - pk[srv[k]].start > 100]
            if a:
                i = srv[a[-1]]
                pk[i], pk[i + 1] = pk[i + 1], pk[i]
        if sh == "garbage_tail":
            # the capture ends with one more server segment that holds an application-data record of 21 arbitrary bytes (no whole
            # number of cipher blocks, shorter than any tag): it can yield nothing, and must not take back what was exported
            last = [p for p in pk if p.dir == "s" and p.payload][-1]
            g = last.copy()
            g.seq = (last.seq + len(last.payload)) & 0xFFFFFFFF
            g.payload = b"\x17" + last.payload[1:3] + b"\x00\x15" + bytes(range(0x30, 0x45))
            g.start, g.end = last.end, last.end + len(g.payload)
            pk.append(g)
        flows = [scen.Flow("tls", conn, e, 0, pk)]
        pkts = cap.stamp([p.copy() for p in pk], {0: e})
        return flows, pkts, conn.keylog
    sh = case["shape"]
    flows = []
    if sh == "default":
        flows.append(scen.quic_flow({}, seed, 0))
    elif sh == "coalesced":
        flows.append(scen.quic_flow({"coalesce": "ini+hs+1rtt", "suite": 0x1302}, seed, 0, v6=True))
    elif sh == "zero_rtt":
        flows.append(scen.quic_flow({"zero_rtt": True}, seed, 0))
    elif sh == "chacha_retry":
        flows.append(scen.quic_flow({"suite": 0x1303, "retry": True, "offered": [0x1301, 0x1303]}, seed, 0))
    elif sh == "key_update":
        conn = scen.quic_conn({"script": []}, seed, key=("c08ku",))
        for i, (d, g) in enumerate([("c", 0), ("s", 0), ("c", 1), ("c", 1), ("s", 1), ("s", 2), ("c", 2), ("s", 2)]):
            fr, data = conn.stream_frames([(0 if d == "c" else 3, 15 + i)])
            conn.dgram(d, [conn.short_pkt(d, fr, gen=g)], stream=data, tag=f"ku{g}")
        flows.append(scen.Flow("quic", conn, cap.Ends(0), 0, scen.quic_packets(conn, 0)))
    elif sh == "ch_overlap":
        # the ClientHello arrives in three Initial packets out of order, the pieces overlap (retransmission with other boundaries)
        flows.append(scen.quic_flow({"ch_split": {"cuts": (50, 150), "order": (0, 2, 1), "packets": True, "overlap": 10}}, seed, 0))
    elif sh == "tls_resumed_interleaved":
        # connection A is opened first (its ClientHello leads the capture) but everything else of it comes after connection B,
        # which resumes A's session (same master secret, abbreviated handshake) and is complete by then
        fa = scen.tls_flow({"version": tls.TLS12, "suite": 0xC02F, "history": [("c", 50), ("s", 70)]}, seed, 0)
        fb = scen.tls_flow({"version": tls.TLS12, "suite": 0xC02F, "master": fa.conn.master, "abbreviated": True, "history": [("c", 33), ("s", 44), ("c", 5)]},
                           seed, 1, key=("resumed",))
        flows += [fa, fb]
    elif sh in ("rebinding", "rebinding_early"):
        # NAT rebinding: from some datagram on the client's packets come from (and the server's go to) another UDP port;
        # connection ids stay (RFC 9000 section 9: a peer-address change that is not a migration by the endpoint)
        f = scen.quic_flow({"script": [("c", [(0, 30)]), ("s", [(0, 200)]), ("c", [(0, 12)]), ("s", [(0, 31)]), ("c", [(4, 9)]), ("s", [(0, 7)])]},
                           seed, 0)
        data = [i for i, g in enumerate(f.conn.dgrams) if g.stream]
        at = data[3] if sh == "rebinding" else data[1]
        for p in f.pkts[at:]:
            p.conn = 50
        flows.append(f)
    else:
        flows.append(scen.quic_flow({"ccid_len": 0}, seed, 0))
        flows.append(scen.tls_flow({"version": tls.TLS13, "suite": 0x1302, "history": [("c", 20), ("s", 2000), ("c", 3)]}, seed, 1))
    ends = {f.id: f.ends for f in flows}
    if sh.startswith("rebinding"):
        e2 = cap.Ends(0)
        e2.client.port = flows[0].ends.client.port + 1000
        ends[50] = e2
        flows[0].alt_ends = e2
    if sh == "tls_resumed_interleaved":
        i0 = [i for i, p in enumerate(flows[0].pkts) if p.payload][0]
        pkts = cap.stamp(flows[0].pkts[:i0 + 1] + flows[1].pkts + flows[0].pkts[i0 + 1:], ends)
    else:
        pkts = cap.stamp(scen.round_robin([f.pkts for f in flows]), ends)
    lines = []
    for f in flows:
        lines += f.keylog()
    return flows, pkts, lines


def export_of(an, f):
    if f.kind == "tls":
        c = scen.tcp_streams(an, f.ends)
        return {"c": c["c2s"] if c else b"", "s": c["s2c"] if c else b""}
    ex = [(ts, d, p, f.ends.client.port) for d, p, ts in scen.udp_export(an, f.ends)]
    if getattr(f, "alt_ends", None) is not None:
        ex += [(ts, d, p, f.alt_ends.client.port) for d, p, ts in scen.udp_export(an, f.alt_ends)]
        ex.sort(key=lambda x: x[0])
    # "dgrams": the exported datagrams with the client port they carry - what a longer capture must not alter
    return {"c": [p for ts, d, p, _ in ex if d == "c"], "s": [p for ts, d, p, _ in ex if d == "s"],
            "dgrams": [(d, cp, p) for ts, d, p, cp in ex]}


def is_prefix(a, b):
    return b[:len(a)] == a


def run_case(case):
    harness.load()
    flows, pkts, lines = build(case)
    name = {k: v for k, v in case.items() if k != "seed"}
    fails, nontriv = [], []
    n = 0
    prev = None
    prev_a = None
    truth = {}
    for f in flows:
        if f.kind == "tls":
            truth[f.id] = {"c": f.conn.plain["c"], "s": f.conn.plain["s"]}
        else:
            t = f.conn.truth()
            truth[f.id] = {"c": [p for d, p in t if d == "c"], "s": [p for d, p in t if d == "s"]}
    sample = None
    for cut in range(len(pkts) + 1):
        res = scen.run(pkts[:cut], lines)
        n += 1
        sig = dict(name, cut=cut)
        try:
            an = scen.analyse(res)
        except scen.ExportError as e:
            fails.append({"kind": e.kind, "sig": sig, "detail": e.detail})
            prev = None
            continue
        cur = {f.id: export_of(an, f) for f in flows}
        grew = False
        for f in flows:
            for d in ("c", "s"):
                if not is_prefix(cur[f.id][d], truth[f.id][d]):
                    fails.append({"kind": "prefix_export_not_prefix_of_plaintext", "sig": dict(name, flow=f.kind, dir=d),
                                  "sub": {"cut": cut}, "detail": f"cut after {cut} packets: {len(cur[f.id][d])} exported items/bytes"})
                if prev is not None and not is_prefix(prev[f.id][d], cur[f.id][d]):
                    fails.append({"kind": "export_retracted_by_longer_capture", "sig": dict(name, flow=f.kind, dir=d),
                                  "sub": {"cut": cut}, "detail": f"export of the first {cut - 1} packets is not a prefix of the export of the first {cut}"})
                if prev is not None and len(cur[f.id][d]) > len(prev[f.id][d]):
                    grew = True
            if prev is not None and "dgrams" in cur[f.id] and not is_prefix(prev[f.id]["dgrams"], cur[f.id]["dgrams"]):
                fails.append({"kind": "exported_datagrams_altered_by_longer_capture", "sig": dict(name, flow=f.kind),
                              "sub": {"cut": cut}, "detail": f"the datagrams exported from the first {cut - 1} packets are not a prefix of those from the first {cut}"})
        if case["kind"] == "quic":
            # the same cut with metadata export: whatever is exported (handshake bytes too) must stay as it is in a longer capture
            res_a = scen.run(pkts[:cut], lines, ["-a"])
            n += 1
            try:
                an_a = scen.analyse(res_a)
                cur_a = [(fr.src_ip, fr.sport, fr.dst_ip, fr.dport, fr.payload) for _, fr in an_a["packets"] if fr.proto == "udp" and fr.payload]
            except scen.ExportError as e:
                fails.append({"kind": e.kind, "sig": dict(sig, args="-a"), "detail": e.detail})
                cur_a = None
            if prev_a is not None and cur_a is not None and not is_prefix(prev_a, cur_a):
                fails.append({"kind": "metadata_export_altered_by_longer_capture", "sig": dict(name, args="-a"), "sub": {"cut": cut},
                              "detail": f"-a: the datagrams exported from the first {cut - 1} packets are not a prefix of those from the first {cut}"})
            prev_a = cur_a
        if cut == 0 and an["packets"]:
            fails.append({"kind": "empty_capture_exports_packets", "sig": name, "detail": str(len(an["packets"]))})
        if grew:
            nontriv.append(engine.jhash(sig))
        prev = cur
    full = prev
    if full is not None:
        for f in flows:
            for d in ("c", "s"):
                if case.get("shape") not in ("reordered",) and full[f.id][d] != truth[f.id][d]:
                    fails.append({"kind": "full_capture_incomplete", "sig": dict(name, flow=f.kind, dir=d),
                                  "detail": f"{len(full[f.id][d])} of {len(truth[f.id][d])}"})
        sample = {"capture": name, "packets": len(pkts), "cuts": len(pkts) + 1, "growing_cuts": len(nontriv)}
    uniq = {}
    for f in fails:
        uniq.setdefault(engine.jhash([f["kind"], f["sig"]]), f)
    r = {"n": n, "fails": list(uniq.values()), "nontrivial": nontriv, "outcomes": [str(len(nontriv))]}
    if sample:
        r["sample"] = sample
    return r
