"""C16 - QUIC packet-number reconstruction equals RFC 9000 Appendix A.3, per space and
direction.

 layer A (product):  window-boundary sweep on the real QuicSession.get_full_packet_number with
                     stub packets; exhaustive over the truncated value for 1- and 2-byte encodings.
 layer B (bfs):      explicit-state search over packet histories (gaps, reordering) with the six
                     (space, direction) slots as state; every discovered state is validated by
                     replaying its discovering path on a fresh real QuicSession.
"""
import itertools
from .. import harness
from ..model import net, rfc9000

PROP = "C16"
LEVEL = "model_checking"

SLOTS = [("INITIAL", False), ("INITIAL", True), ("HANDSHAKE", False), ("HANDSHAKE", True), ("RTT_1", False),
         ("RTT_1", True), ("RTT_O", False)]


def _ks(l, tier):
    w = 8 * l
    ks = [0, 1, 2, 255, 1 << 20, (1 << 31) >> 0, ((1 << 53) >> w) - 1, ((1 << 53) >> w) + 1, ((1 << 62) >> w) - 2,
          ((1 << 62) >> w) - 1]
    if tier == "quick":
        ks = [0, 1, 255, ((1 << 53) >> w) + 1, ((1 << 62) >> w) - 2, ((1 << 62) >> w) - 1]
    return sorted(set(k for k in ks if k >= 0))


def describe(tier):
    return {
        "rule": "layer A: encoded length l in 1..4 x largest = k*2^(8l)+d-1 (k from a list reaching 2^62, d within +-3 of 0, "
                "half window, window) x truncated value (all values for l<=2; +-3 around 0, half window, window-1 and "
                "(expected+-half window) mod window for l=3,4) x each of 7 (packet type, direction) slots, the other "
                "slots holding different values; layer B: BFS over packet histories with state = the largest-"
                "packet-number slots (which slots share a space is taken from RFC 9000 12.3, not from TLExport's tables: a 0-RTT packet moves the 1-RTT slot of its direction and vice versa); layer N: for 4 suites x 9 base values up to 2^62 x both directions, real 1-RTT packets protected by "
                "the peer model at packet numbers base+1, base+2 are fed to the real session and must be opened (the reconstructed "
                "number is the AEAD nonce), with runts of the same direction (incomplete header-protection sample) between them a key-phase flip on a third packet whose number is sent in one byte, and 300 packets carrying an unknown frame type before a fourth. non-trivial: the reference decode differs from the plain truncated value "
                "(window arithmetic mattered); distinct = distinct (l, largest, truncated)",
        "exhaustive": True,
        "bounds": {"lengths": [1, 2, 3, 4], "k_values": {l: [str(k) for k in _ks(l, tier)] for l in (1, 2, 3, 4)},
                   "bfs": "fixpoint over 4 slots x 12 packet numbers (quick) / 4 slots x 14 (thorough)"},
        "min_nontrivial": 1000,
        "assumptions": [
            "reference: RFC 9000 Appendix A.3 pseudo-code transcribed in integer arithmetic (mc/model/rfc9000.py)",
            "get_full_packet_number reads and writes only packet_number_client/packet_number_server (state injection in "
            "layer A and in the BFS; every BFS state is re-derived by replaying its path on a fresh QuicSession)",
            "largest = 0 and 'no packet yet' are the same state in TLExport; A.3 gives the same result for both",
        ],
    }


def cases(tier, seed):
    for l in (1, 2, 3, 4):
        for k in _ks(l, tier):
            for slot in range(len(SLOTS)):
                if l == 2 and tier == "quick" and (slot != 5 or k in (255,)):
                    continue
                yield {"layer": "A", "l": l, "k": str(k), "slot": slot}
    yield {"layer": "B", "tier": tier}
    for suite in (0x1301, 0x1302, 0x1303, 0x1304):
        yield {"layer": "N", "suite": suite, "seed": seed}


_sess = None


def new_session():
    m = harness.load()
    from tlexport.packet import Packet
    from tlexport.quic.quic_session import QuicSession
    c = net.Endpoint(b"\x02" * 6, "10.0.0.1", 50000)
    s = net.Endpoint(b"\x04" * 6, "10.0.0.2", 443)
    fr = net.build_frame(c, s, "udp", b"\xc0" + b"\x00" * 30)
    return QuicSession(Packet(fr, 1.0), [443], [], {})


def stub(slot, pn_bytes):
    from tlexport.quic.quic_packet import ShortQuicPacket, LongQuicPacket, QuicPacketType
    ptype, isserver = SLOTS[slot]
    t = getattr(QuicPacketType, ptype)
    if ptype == "RTT_1":
        return ShortQuicPacket(packet_type=t, key_phase=0, dcid=b"", packet_num=pn_bytes, payload=b"", isserver=isserver,
                               first_byte=b"\x40", ts=0.0)
    return LongQuicPacket(packet_type=t, version=b"\x00\x00\x00\x01", dcid_len=b"\x00", dcid=b"", scid_len=b"\x00", scid=b"",
                          first_byte=b"\xc0", ts=0.0, packet_len=b"\x00", packet_len_bytes=b"\x00", packet_num=pn_bytes,
                          payload=b"", isserver=isserver)


def slot_key(slot):
    from tlexport.quic.quic_session import PACKET_TYPE_MAP
    from tlexport.quic.quic_packet import QuicPacketType
    ptype, isserver = SLOTS[slot]
    return isserver, PACKET_TYPE_MAP[getattr(QuicPacketType, ptype)]


# RFC 9000 12.3: three packet-number spaces - Initial, Handshake, Application data (0-RTT and 1-RTT share it) - per direction.
# Which slots share a space is decided here, not read from TLExport's own tables.
RFC_SPACE = {"INITIAL": "initial", "HANDSHAKE": "handshake", "RTT_1": "application", "RTT_O": "application"}


def same_space(a, b):
    return SLOTS[a][1] == SLOTS[b][1] and RFC_SPACE[SLOTS[a][0]] == RFC_SPACE[SLOTS[b][0]]


def get_slots(sess):
    out = []
    for isserver in (False, True):
        d = sess.packet_number_server if isserver else sess.packet_number_client
        for k in sorted(d, key=lambda k: str(k)):
            out.append(d[k])
    return tuple(out)


def set_slot(sess, slot, value):
    isserver, key = slot_key(slot)
    (sess.packet_number_server if isserver else sess.packet_number_client)[key] = value


def get_slot(sess, slot):
    isserver, key = slot_key(slot)
    return (sess.packet_number_server if isserver else sess.packet_number_client)[key]


def run_case(case):
    if case["layer"] == "A":
        return run_a(case)
    if case["layer"] == "N":
        return run_n(case)
    return run_b(case)


N_BASES = [255, 65535, (1 << 24) + 3, (1 << 32) - 2, (1 << 32) + 5, (1 << 40) + 7, (1 << 53) + 1, (1 << 61) + 12345, (1 << 62) - 300]


def run_n(case):
    """'... and uses as AEAD nonce': real 1-RTT packets protected by the peer model at large packet numbers are fed to the
    real session (whose largest-packet-number slot is set just below); the STREAM data must come out."""
    from .. import scen
    from ..model import cap as capm
    m = harness.load()
    from tlexport.packet import Packet
    from tlexport.quic.quic_session import PACKET_TYPE_MAP
    from tlexport.quic.quic_packet import QuicPacketType
    from tlexport.quic.quic_frame import StreamFrame
    seed, suite = case["seed"], case["suite"]
    conn = scen.quic_conn({"suite": suite, "script": []}, seed, key=("c16n",))
    ends = capm.Ends(2)
    pk = capm.stamp(scen.quic_packets(conn), {0: ends})
    res, (_s, qs) = scen.run(pk, conn.keylog, want_objects=True)
    fails, nontriv = [], []
    n = 0
    if not res.ok or len(qs) != 1:
        return {"n": 1, "fails": [{"kind": "handshake_not_processed", "sig": {"layer": "N", "suite": f"{suite:#06x}"}, "detail": res.status}]}
    q = qs[0]
    key = PACKET_TYPE_MAP[QuicPacketType.RTT_1]
    t = 5000.0
    sample = None
    for bi, base in enumerate(N_BASES):
        for d in ("c", "s"):
            for step in (1, 2, 3, 4):
                pn = base + step if step < 4 else base + 3 + 301
                if step == 4:
                    # a run of 300 valid packets (one-byte numbers) whose payload ends in a frame type TLExport does not know
                    # (IMMEDIATE_ACK 0x1f of the ack-frequency extension): they authenticate, and whatever their frames do to
                    # the parser, the next ordinary packet (one byte too) must be expanded against the last of them
                    for k in range(300):
                        src, dst = ends.src_dst(d)
                        t += 1
                        rawk = conn.short_pkt(d, b"\x01\x1f", pn=base + 4 + k, pn_len=1, gen=bi + 1)
                        try:
                            m.handle_quic_packet(Packet(net.build_frame(src, dst, "udp", rawk), t), m.keylog, m.quic_sessions, {}, True)
                        except Exception as e:
                            fails.append({"kind": "raised", "sig": {"layer": "N", "suite": f"{suite:#06x}", "unknown_frame": True}, "detail": repr(e)})
                            break
                # step 3: the key phase flips at this (large) packet number, which is sent in ONE byte: packet numbers keep
                # counting across a key update (RFC 9001 section 6), the reconstruction must still use largest = pn - 1
                gen = bi + 1 if step >= 3 else bi
                slot = q.packet_number_server if d == "s" else q.packet_number_client
                slot[key] = pn - 1 if step == 1 else slot[key]
                if step == 2:
                    # history with a damaged packet: between the two packets a runt of this direction arrives whose header-protection
                    # sample is incomplete (a packet cut in the capture); it cannot be opened and must not change what follows
                    fr0, _ = conn.stream_frames([(0 if d == "c" else 3, 3)])
                    whole = conn.short_pkt(d, fr0, pn=pn + 7, pn_len=4)
                    hdr = 1 + len(conn.dcid_for[d])
                    for keep in (hdr + 4 + 7, hdr + 4 + 15, hdr + 2):
                        src, dst = ends.src_dst(d)
                        t += 1
                        try:
                            m.handle_quic_packet(Packet(net.build_frame(src, dst, "udp", whole[:keep]), t), m.keylog, m.quic_sessions, {}, True)
                        except Exception as e:
                            fails.append({"kind": "raised", "sig": {"layer": "N", "suite": f"{suite:#06x}", "runt": keep - hdr}, "detail": repr(e)})
                fr, data = conn.stream_frames([(0 if d == "c" else 3, 24)])
                raw = conn.short_pkt(d, fr, pn=pn, pn_len=1 if step >= 3 else 4, gen=gen)
                src, dst = ends.src_dst(d)
                t += 1
                packet = Packet(net.build_frame(src, dst, "udp", raw), t)
                before = len(q.output_buffer)
                try:
                    m.handle_quic_packet(packet, m.keylog, m.quic_sessions, {}, True)
                except Exception as e:
                    fails.append({"kind": "raised", "sig": {"layer": "N", "suite": f"{suite:#06x}", "pn": str(pn)}, "detail": repr(e)})
                    continue
                n += 1
                got = [f for f in q.output_buffer[before:] if isinstance(f, StreamFrame)]
                if len(got) != 1 or bytes(got[0].stream_data) != data:
                    fails.append({"kind": "packet_not_opened_with_reconstructed_number",
                                  "sig": {"layer": "N", "suite": f"{suite:#06x}", "pn_at_least_2^32": pn >= 1 << 32, "dir": d},
                                  "sub": {"pn": str(pn)},
                                  "detail": f"1-RTT packet number {pn} (4-byte encoding, largest {pn - 1}): stream data not delivered"})
                elif slot[key] != pn:
                    fails.append({"kind": "wrong_slot_update", "sig": {"layer": "N", "suite": f"{suite:#06x}", "dir": d},
                                  "detail": f"largest is {slot[key]} after packet {pn}"})
                else:
                    nontriv.append(f"N/{suite}/{pn}/{d}")
                    if sample is None and pn > 1 << 32:
                        sample = {"layer": "N", "suite": f"{suite:#06x}", "packet_number": pn, "direction": d, "stream_bytes": len(data)}
    harness.reset_state()
    uniq = {}
    for f in fails:
        uniq.setdefault(str((f["kind"], f["sig"])), f)
    r = {"n": n, "fails": list(uniq.values()), "nontrivial": nontriv, "outcomes": [f"N{suite}"], "count": {"layer_n_packets": n}}
    if sample:
        r["sample"] = sample
    return r


def run_a(case):
    l, k, slot = case["l"], int(case["k"]), case["slot"]
    w = 8 * l
    win = 1 << w
    hwin = win // 2
    sess = new_session()
    fails, nontrivial, outcomes = [], set(), set()
    n = 0
    sample = None
    deltas = sorted(set(d + e for d in (0, hwin, win) for e in range(-3, 4)))
    for d in deltas:
        largest = k * win + d - 1
        if largest < 0 or largest >= (1 << 62):
            continue
        expected = largest + 1
        if l <= 2:
            truncs = range(win)
        else:
            centres = [0, hwin, win - 1, (expected + hwin) % win, (expected - hwin) % win, expected % win]
            truncs = sorted(set((c + e) % win for c in centres for e in range(-3, 4)))
        # other slots hold distinctive values so that reading the wrong slot shows
        for s2 in range(len(SLOTS)):
            if not same_space(s2, slot):
                set_slot(sess, s2, (largest ^ 0x155) + 7 * s2 + 1000)
        for s2 in range(len(SLOTS)):
            if same_space(s2, slot):
                set_slot(sess, s2, largest)
        before = get_slots(sess)
        isserver, key = slot_key(slot)
        dct = sess.packet_number_server if isserver else sess.packet_number_client
        fn = sess.get_full_packet_number
        pkt = stub(slot, b"\x00" * l)
        dec = rfc9000.decode_packet_number
        for t in truncs:
            dct[key] = largest
            pkt.packet_num = t.to_bytes(l, "big")
            try:
                got = int.from_bytes(fn(pkt), "big")
            except Exception as e:
                fails.append({"kind": "raised", "sig": {"l": l, "largest": str(largest), "trunc": t, "exc": type(e).__name__}})
                n += 1
                continue
            n += 1
            want = dec(largest, t, w)
            if want != t:
                nontrivial.add((l, largest, t))
            if got != want:
                fails.append({"kind": "wrong_packet_number",
                              "sig": {"l": l, "largest": str(largest), "trunc": t, "slot": SLOTS[slot][0] + ("/s" if SLOTS[slot][1] else "/c")},
                              "detail": f"got {got} want {want}"})
                if len(fails) > 50:
                    break
            elif dct[key] != (want if want > largest else largest):
                fails.append({"kind": "wrong_slot_update", "sig": {"l": l, "largest": str(largest), "trunc": t, "slot": slot},
                              "detail": f"slot holds {dct[key]} after decoding {want} with largest {largest}"})
            elif sample is None and want != t:
                sample = {"l": l, "largest": largest, "truncated": t, "decoded": got, "rfc": want, "slot": SLOTS[slot]}
        outcomes.add((l, d))
        # slots of other spaces/directions must be untouched (nothing above restores them, so one test per sweep suffices)
        dct[key] = largest
        if get_slots(sess) != before:
            fails.append({"kind": "foreign_slot_modified", "sig": {"l": l, "largest": str(largest), "slot": slot},
                          "detail": f"slots before {before} after {get_slots(sess)}"})
        if len(fails) > 50:
            break
    r = {"n": n, "fails": fails[:60], "nontrivial": [f"{a}:{b}:{c}" for a, b, c in list(nontrivial)[:20000]],
         "outcomes": [str(o) for o in outcomes], "count": {"layer_a_evaluations": n, "layer_a_nontrivial": len(nontrivial)}}
    if sample:
        r["sample"] = sample
    return r


def run_b(case):
    """BFS over histories.  state = tuple of slot largest values (only the slots in play)."""
    tier = case["tier"]
    if tier == "quick":
        slots = [4, 5, 2, 6]                 # 1-RTT client, 1-RTT server, Handshake client, 0-RTT client (shares the 1-RTT client space)
        pns = [0, 1, 2, 127, 128, 129, 255, 256, 300, 32768, 65535, 65536]
    else:
        slots = [4, 5, 2, 6]                 # + 0-RTT client (shares the 1-RTT client space)
        pns = [0, 1, 2, 127, 128, 129, 255, 256, 300, 32768, 65535, 65536, (1 << 24) + 1, (1 << 32) + 5]
    sess = new_session()
    init = tuple(get_slot(sess, s) for s in slots)
    seen = {init: ()}
    frontier = [init]
    transitions = 0
    fails = []
    validated = 0
    maxdepth = 0
    nontrivial = set()
    while frontier:
        nxt = []
        for state in frontier:
            path = seen[state]
            for si, slot in enumerate(slots):
                largest = state[si]
                for pn in pns:
                    for l in (1, 2, 3, 4):
                        win = 1 << (8 * l)
                        if abs(pn - (largest + 1)) >= win // 2:
                            continue      # not an encoding a conformant sender may use
                        # inject state
                        for sj, s2 in enumerate(slots):
                            set_slot(sess, s2, state[sj])
                        pkt = stub(slot, (pn % win).to_bytes(l, "big"))
                        got = int.from_bytes(sess.get_full_packet_number(pkt), "big")
                        transitions += 1
                        if pn % win != pn or largest > pn:
                            nontrivial.add((state, slot, pn, l))
                        new = tuple(get_slot(sess, s) for s in slots)
                        want_state = list(state)
                        for sj, s2 in enumerate(slots):
                            if same_space(s2, slot):
                                want_state[sj] = max(state[sj], pn)
                        if got != pn or new != tuple(want_state):
                            if len(fails) < 30:
                                fails.append({"kind": "history_wrong_packet_number",
                                              "sig": {"state": str(state), "slot": SLOTS[slot][0] + ("/s" if SLOTS[slot][1] else "/c"),
                                                      "pn": pn, "l": l},
                                              "detail": f"decoded {got} want {pn}; slots {new} want {tuple(want_state)}; "
                                                        f"path {path}"})
                            continue
                        if new not in seen:
                            seen[new] = path + ((slot, pn, l),)
                            nxt.append(new)
                            maxdepth = max(maxdepth, len(seen[new]))
        frontier = nxt
    # conformance: replay the discovering path of every state on a fresh real object
    for state, path in seen.items():
        s2 = new_session()
        ok = True
        for slot, pn, l in path:
            win = 1 << (8 * l)
            got = int.from_bytes(s2.get_full_packet_number(stub(slot, (pn % win).to_bytes(l, "big"))), "big")
            ok = ok and got == pn
        if tuple(get_slot(s2, s) for s in slots) != state or not ok:
            fails.append({"kind": "bfs_state_not_reproduced", "sig": {"state": str(state)}, "detail": str(path)})
        validated += 1
    return {"n": transitions, "fails": fails, "nontrivial": [f"B{hash(x) & 0xffffffff:x}" for x in list(nontrivial)[:5000]],
            "outcomes": [f"B-states-{len(seen)}"],
            "count": {"states": len(seen), "transitions": transitions, "traces_validated_against_impl": validated},
            "max": {"bfs_max_depth": maxdepth},
            "sample": {"bfs_path_example": [list(p) for p in list(seen.values())[min(40, len(seen) - 1)]]}}
