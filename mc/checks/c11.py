"""C11 - with -c exactly the packets with a bad transport checksum are ignored.

 layer F  function level, exhaustive sum sweep: {IPv4,IPv6} x {TCP,UDP} x {even,odd} x base payloads;
          one 16-bit word takes all 65 536 values, steering the one's-complement sum through every carry
          and fold boundary (sums of exactly 0x10000, computed checksums 0x0000 / 0xffff); per packet the
          correct checksum (sender rule) and wrong values.  Oracle: RFC 1071 receiver test.
 layer P  program level: every subset of 8 designated packets of a TLS+QUIC capture corrupted;
          export(-c, corrupted) must equal export(no -c, capture with those packets removed).
"""
import itertools
import struct
from .. import harness, scen, engine
from ..model import cap, tls, net

PROP = "C11"
LEVEL = "fault_enumeration"

BASES = {"tiny": b"", "small": b"\x00\x01" * 3, "ffff": b"\xff\xff" * 40, "mixed": bytes(range(7, 87))}


def describe(tier):
    q = tier == "quick"
    return {
        "rule": "R: every data segment of a TLS 1.2/IPv4 and a TLS 1.3/IPv6 connection damaged (payload byte / checksum field) and followed 1 or 3 packets later by its intact "
                "retransmission - export(-c) must equal export(no -c) of the capture without the damaged packet; F (plus the same sweep on frames carrying Ethernet padding or a 4-byte FCS trailer, on IPv4 packets with 4 and 40 bytes of header options, and on IPv6 packets with extension headers): for ipver x proto x parity x " + ("2" if q else "3") + " base payloads, a 16-bit payload word takes all 65536 values; "
                "each packet is evaluated with its correct checksum (sender rule incl. UDP 0->0xffff) and with " + ("2" if q else "4") +
                " wrong values that fail the receiver test; F also interleaves correct packets of the other transport protocol between the same addresses, incl. one of equal transport length; R also with record headers in 5-byte segments of their own; P (2 TLS + 2 QUIC connections, TCP and UDP between the same hosts, one QUIC connection on an unconfigured port, a third of the subsets with -c -g): all 256 subsets of 8 designated packets corrupted (payload byte "
                "flipped without fixing the checksum / checksum field changed). non-trivial: F - a packet whose folded sum needed "
                ">= 1 carry fold; P - a subset run whose -c export equals the filtered export and is non-empty; distinct = distinct "
                "(variant, word) / subset",
        "exhaustive": True,
        "bounds": {"word_values": 65536, "subsets": 256},
        "min_nontrivial": 1000,
        "chunksize": 1,
        "assumptions": [
            "oracle: RFC 1071 receiver test implemented independently in mc/model/net.py",
            "UDP/IPv4 with checksum field 0 ('not computed') and the alternative representation of zero (TCP field 0xffff "
            "when the computed checksum is 0x0000) are outside the property's correct/wrong dichotomy and are not generated",
        ],
    }


def cases(tier, seed):
    q = tier == "quick"
    bases = ["small", "ffff"] if q else ["small", "ffff", "mixed"]
    for v6 in (False, True):
        for proto in ("tcp", "udp"):
            for odd in (False, True):
                for b in bases:
                    for chunk in range(8):
                        yield {"layer": "F", "v6": v6, "proto": proto, "odd": odd, "base": b, "chunk": chunk, "wrong": 2 if q else 4}
                if not v6:
                    # IPv4 header options (4 bytes: NOP NOP NOP EOL; 40 bytes: the maximum) in front of the transport header
                    for oi, chunk in ((1, 0), (2, 4)) if q else [(oi, c) for oi in (1, 2) for c in range(8)]:
                        yield {"layer": "F", "v6": v6, "proto": proto, "odd": odd, "base": "small", "chunk": chunk, "wrong": 1, "v4_opts": oi}
                if v6:
                    # IPv6 extension headers (hop-by-hop + destination options) in front of the transport header
                    for chunk in (range(0, 8, 4) if q else range(8)):
                        yield {"layer": "F", "v6": v6, "proto": proto, "odd": odd, "base": "small", "chunk": chunk, "wrong": 1, "v6_ext": True}
                if not odd or not q:
                    # frames with a link-layer trailer; the 'tiny' base keeps IPv4 frames below the 60-byte Ethernet minimum
                    for tr in ("pad", "fcs"):
                        for chunk in (range(0, 8, 4) if q else range(8)):
                            yield {"layer": "F", "v6": v6, "proto": proto, "odd": odd, "base": "tiny", "chunk": chunk, "wrong": 1,
                                   "trailer": tr}
    for part in range(16):
        yield {"layer": "P", "part": part, "seed": seed}
    for fl in (0, 1, 2):
        yield {"layer": "R", "flow": fl, "seed": seed}


def run_case(case):
    harness.load()
    if case["layer"] == "F":
        return run_f(case)
    if case["layer"] == "R":
        return run_r(case)
    return run_p(case)


V4_OPTS = {0: b"", 1: b"\x01\x01\x01\x00", 2: b"\x01" * 39 + b"\x00"}


def run_r(case):
    """a damaged TCP segment followed by its intact retransmission: with -c the damaged one is ignored and the
    retransmission takes its place - the export equals that of the capture from which the damaged packet was removed"""
    seed = case["seed"]
    if case["flow"] == 2:
        # every record header travels in a 5-byte segment of its own (a sender that writes header and body separately)
        def cutter(d, i, data):
            out, pos = [], 0
            while pos < len(data):
                ln = int.from_bytes(data[pos + 3:pos + 5], "big")
                out += [data[pos:pos + 5], data[pos + 5:pos + 5 + ln]]
                pos += 5 + ln
            return [x for x in out if x]
        f = scen.tls_flow({"version": tls.TLS12, "suite": 0xC02F, "history": [("c", 30), ("s", 70), ("c", 5)]}, seed, 0, cutter=cutter)
    elif case["flow"] == 0:
        f = scen.tls_flow({"version": tls.TLS12, "suite": 0xC02F, "history": [("c", 30), ("s", 700), ("c", 5), ("s", 9)]}, seed, 0, mss=300)
    else:
        f = scen.tls_flow({"version": tls.TLS13, "suite": 0x1301, "history": [("c", 10), ("s", 500), ("c", 77)]}, seed, 2, v6=True, mss=200)
    by = scen.quic_flow({"suite": 0x1301}, seed, 1)
    ends = {f.id: f.ends, by.id: by.ends}
    base = scen.round_robin([f.pkts, by.pkts])
    keylog = f.keylog() + by.keylog()
    data = [i for i, p in enumerate(base) if p.conn == f.id and p.payload]
    fails, nontriv, outcomes = [], [], set()
    n = 0
    sample = None
    for k, i in enumerate(data):
        for delay in (1, 3):
            for how in ("payload", "field"):
                pk = [p.copy() for p in base]
                pk.insert(min(len(pk), i + delay), base[i].copy())       # the intact retransmission
                cap.stamp(pk, ends)
                filtered = [p.copy() for j, p in enumerate(pk) if j != i]
                old = _transport_sum(pk[i].frame, "tcp")
                if how == "payload":
                    pk[i].payload = bytes([pk[i].payload[0] ^ 0x40]) + pk[i].payload[1:]
                    pk[i].bad_sum = old
                else:
                    pk[i].bad_sum = (old + 0x0101) & 0xFFFF
                cap.render(pk[i], ends)
                assert not net.transport_ok(pk[i].frame)
                for p in filtered:
                    cap.render(p, ends)
                r1 = scen.run(pk, keylog, ["-c"])
                r2 = scen.run(filtered, keylog, [])
                n += 2
                sig = {"layer": "R", "flow": case["flow"], "segment": k, "delay": delay, "damage": how}
                if not r1.ok or not r2.ok:
                    bad_r = r1 if not r1.ok else r2
                    fails.append({"kind": "run_failed", "sig": sig, "detail": bad_r.status + bad_r.detail[-400:]})
                    continue
                if r1.out != r2.out:
                    fails.append({"kind": "export_differs_from_filtered", "sig": sig,
                                  "detail": f"-c on the capture with a damaged segment and its intact retransmission: {len(r1.out or b'')} bytes; "
                                            f"capture without the damaged segment, no -c: {len(r2.out or b'')} bytes"})
                    continue
                try:
                    an = scen.analyse(r1)
                    c = scen.tcp_streams(an, f.ends)
                except scen.ExportError as e:
                    fails.append({"kind": e.kind, "sig": sig, "detail": e.detail})
                    continue
                if c is not None and c["s2c"] == f.conn.plain["s"] and c["c2s"] == f.conn.plain["c"]:
                    nontriv.append(engine.jhash(sig))
                outcomes.add(scen.digest(r1.out))
                if sample is None:
                    sample = {"layer": "R", "damaged": repr(pk[i]), "output_packets": len(an["packets"])}
    r = {"n": n, "fails": fails, "nontrivial": nontriv, "outcomes": sorted(outcomes)}
    if sample:
        r["sample"] = sample
    return r


def run_f(case):
    from tlexport.packet import Packet
    from tlexport.checksums import calculate_checksum_tcp, calculate_checksum_udp
    v6, proto, odd, base = case["v6"], case["proto"], case["odd"], BASES[case["base"]]
    src = net.Endpoint(b"\x02" * 6, "2001:db8::1" if v6 else "10.0.0.1", 40000)
    dst = net.Endpoint(b"\x04" * 6, "2001:db8::2" if v6 else "10.0.0.2", 443)
    fn = calculate_checksum_tcp if proto == "tcp" else calculate_checksum_udp
    fails = []
    n = nontriv = 0
    # packets of the OTHER transport protocol between the same two addresses are verified in between (a correct one must be
    # accepted whatever was verified before it)
    other = "udp" if proto == "tcp" else "tcp"
    ofn = calculate_checksum_udp if proto == "tcp" else calculate_checksum_tcp
    opk = [Packet(net.build_frame(a, b_, other, b"interleaved" + bytes([k]), seq=7, ack=9), 1.0) for k, (a, b_) in enumerate(((src, dst), (dst, src)))]
    sample = None
    outcomes = set()
    lo = case["chunk"] * 8192
    for w in range(lo, lo + 8192):
        payload = struct.pack("!H", w) + base + (b"\x5a" if odd else b"")
        frame = net.build_frame(src, dst, proto, payload, seq=0x01020304, ack=0x0a0b0c0d, v6_ext=bool(case.get("v6_ext")),
                                v4_opts=V4_OPTS[case.get("v4_opts", 0)])
        # link-layer trailer: Ethernet padding of short frames / a captured frame check sequence (not part of the IP packet)
        trailer = case.get("trailer")
        if trailer == "pad":
            frame = frame + b"\x00" * max(1, 60 - len(frame))
        elif trailer == "fcs":
            frame = frame + b"\xde\xad\xbe\xef"
        pk = Packet(frame, 1.0)
        tr = pk.tcp if proto == "tcp" else pk.udp
        correct = tr.sum
        # how many folds did the sum need (for the non-triviality rule)
        seg = net.build_frame(src, dst, proto, payload, seq=0x01020304, ack=0x0a0b0c0d)[14 + (40 if v6 else 20):]
        raw = sum(struct.unpack("!%dH" % ((len(seg) + 1) // 2), seg + (b"\x00" if len(seg) & 1 else b"")))
        variants = [(correct, True)]
        for wv in ((correct ^ 1), (correct ^ 0x8000), (correct + 1) & 0xFFFF, (~correct) & 0xFFFF)[:case["wrong"]]:
            if proto == "udp" and wv == 0:
                continue
            fr2 = net.build_frame(src, dst, proto, payload, seq=0x01020304, ack=0x0a0b0c0d, transport_sum=wv)   # (the plain variant decides)
            if net.transport_ok(fr2):
                continue            # alternative representation of zero: not a wrong checksum
            variants.append((wv, False))
        for val, want in variants:
            tr.sum = val
            n += 1
            try:
                got = bool(fn(pk))
            except Exception as e:
                fails.append({"kind": "checksum_routine_raised", "sig": {"v6": v6, "proto": proto, "odd": odd, "base": case["base"],
                                                                       "exc": type(e).__name__},
                              "sub": {"w": w, "field": val}, "detail": f"word {w:#06x} field {val:#06x}: {type(e).__name__}: {e}"})
                continue
            if got != want:
                kind = "correct_checksum_rejected" if want else "wrong_checksum_accepted"
                fails.append({"kind": kind, "sig": {"v6": v6, "proto": proto, "odd": odd, "base": case["base"],
                                                    "computed": f"{correct:#06x}" if correct in (0, 0xFFFF) else "other"},
                              "sub": {"w": w, "field": val}, "detail": f"word {w:#06x}: field {val:#06x}, correct {correct:#06x}"})
        if w % 1024 == 0:
            # ... and one of exactly the SAME transport-layer length as the swept packet, same direction, verified right before it
            n += 2
            same_len = Packet(net.build_frame(src, dst, other, b"\x42" * (len(payload) + (12 if other == "udp" else -12 if len(payload) >= 12 else 0)),
                                              seq=7, ack=9), 1.0)
            tr.sum = correct
            if not ofn(same_len) or not fn(pk):
                fails.append({"kind": "correct_checksum_rejected", "sig": {"v6": v6, "proto": proto, "after_equal_length_packet_of": other},
                              "detail": f"a correct {other} packet and a correct {proto} packet of equal transport-layer length between the same addresses: one was rejected"})
            for k, q in enumerate(opk):
                n += 1
                if not ofn(q):
                    fails.append({"kind": "correct_checksum_rejected", "sig": {"v6": v6, "proto": other, "interleaved_with": proto},
                                  "detail": f"a correct {other} packet between the same addresses was rejected after {proto} packets were verified"})
        if raw > 0xFFFF:
            nontriv += 1
        outcomes.add(correct in (0, 0xFFFF))
        if sample is None and raw > 0xFFFF:
            sample = {"v6": v6, "proto": proto, "odd_length": odd, "word": f"{w:#06x}", "correct_checksum": f"{correct:#06x}",
                      "unfolded_sum": f"{raw:#x}"}
    uniq = {}
    for f in fails:
        uniq.setdefault(engine.jhash([f["kind"], f["sig"]]), f)
    r = {"n": n, "fails": list(uniq.values()), "nontrivial_n": nontriv, "outcomes": [f"{case['proto']}{v6}{odd}{o}" for o in outcomes],
         "count": {"layer_f_evaluations": n}}
    if sample:
        r["sample"] = sample
    return r


def run_p(case):
    seed = case["seed"]
    f1 = scen.tls_flow({"version": tls.TLS12, "suite": 0xC02F, "history": [("c", 30), ("s", 60), ("c", 5), ("s", 9)]}, seed, 0)
    f2 = scen.quic_flow({"suite": 0x1301}, seed, 1, v6=True)
    f3 = scen.tls_flow({"version": tls.TLS13, "suite": 0x1301, "history": [("c", 10), ("s", 10)]}, seed, 2, v6=True)
    f4 = scen.quic_flow({"suite": 0x1303, "script": [("c", [(0, 11)]), ("s", [(0, 12)])]}, seed, 3, server_port=8443)   # a port that is not configured
    # the QUIC connections run between the same two hosts as the TLS connections (same addresses, TCP and UDP)
    f2.ends.client.ip, f2.ends.server.ip = f3.ends.client.ip, f3.ends.server.ip
    f4.ends.client.ip, f4.ends.server.ip = f1.ends.client.ip, f1.ends.server.ip
    flows = [f1, f2, f3, f4]
    ends = {f.id: f.ends for f in flows}
    pkts = cap.stamp(scen.round_robin([f.pkts for f in flows]), ends)
    keylog = []
    for f in flows:
        keylog += f.keylog()
    # 8 designated packets: two per flow (one early, one late among the payload-carrying ones)
    des = []
    for f in flows:
        idx = [i for i, p in enumerate(pkts) if p.conn == f.id and p.payload]
        # odd positions get a changed checksum field (payload intact), even positions a flipped payload byte: the first payload
        # packet of a connection must be of the first kind (a damaged ClientHello would not decrypt anyway)
        if f.kind == "quic" and f.id == 3:
            # for the QUIC connection on the unconfigured port both designated datagrams CARRY STREAM DATA (the second one gets the
            # changed checksum field with an intact payload: processed, it would show in the export)
            sd = [i for i, g in zip(idx, f.conn.dgrams) if g.stream]
            des += [sd[0], sd[-1]]
        else:
            des += [idx[-1], idx[0]] if f.id in (0, 1) else [idx[1], idx[len(idx) // 2]]
    fails, nontriv, outcomes = [], [], set()
    n = 0
    sample = None
    for mask in range(256):
        if mask % 16 != case["part"]:
            continue
        bad = [des[i] for i in range(8) if mask >> i & 1]
        corrupted = []
        for i, p in enumerate(pkts):
            q = p.copy()
            if i in bad:
                if des.index(i) % 2 == 0:
                    # payload byte flipped, checksum left as it was
                    orig = net.parse_frame(p.frame)
                    seg_sum = struct.unpack("!H", p.frame[-len(p.payload) - (2 if p.proto == "udp" else 4):][:2])[0]
                    q.payload = bytes([p.payload[0] ^ 0x40]) + p.payload[1:]
                    good = net.parse_frame(cap.render(q, ends).frame)
                    # reuse the old checksum
                    old = _transport_sum(p.frame, p.proto)
                    q.bad_sum = old
                    cap.render(q, ends)
                else:
                    q.bad_sum = (_transport_sum(p.frame, p.proto) + 0x0101) & 0xFFFF or 1
                    cap.render(q, ends)
                assert not net.transport_ok(q.frame)
            corrupted.append(q)
        filtered = [p for i, p in enumerate(pkts) if i not in bad]
        extra = ["-g"] if mask % 3 == 1 else []          # a third of the subsets also with the greased-bit option
        r1 = scen.run(corrupted, keylog, ["-c"] + extra)
        r2 = scen.run(filtered, keylog, extra)
        n += 2
        sig = {"layer": "P", "subset": mask, "args": " ".join(["-c"] + extra)}
        if not r1.ok or not r2.ok:
            bad_r = r1 if not r1.ok else r2
            fails.append({"kind": "run_failed", "sig": sig, "detail": bad_r.status + bad_r.detail[-400:]})
            continue
        if r1.out != r2.out:
            fails.append({"kind": "export_differs_from_filtered", "sig": sig,
                          "detail": f"-c on the corrupted capture: {len(r1.out or b'')} bytes; filtered capture without -c: {len(r2.out or b'')} bytes"})
            continue
        try:
            an = scen.analyse(r1)
        except scen.ExportError as e:
            fails.append({"kind": e.kind, "sig": sig, "detail": e.detail})
            continue
        if an["packets"]:
            nontriv.append(f"P{mask}")
        outcomes.add(scen.digest(r1.out))
        if sample is None:
            sample = {"layer": "P", "corrupted_subset": [repr(pkts[i]) for i in bad], "output_packets": len(an["packets"])}
    r = {"n": n, "fails": fails, "nontrivial": nontriv, "outcomes": sorted(outcomes)}
    if sample:
        r["sample"] = sample
    return r


def _transport_sum(frame, proto):
    v6 = frame[12:14] == b"\x86\xdd"
    off = 14 + (40 if v6 else 20) + (16 if proto == "tcp" else 6)
    return struct.unpack("!H", frame[off:off + 2])[0]
