"""C06 - the output is always a well-formed pcapng of well-formed, reassemblable packets.

Oracle = our strict reader (mc/model/pcapio.py + net.py, struct only): block framing, Ethernet /
IPv4|IPv6 / TCP|UDP lengths and checksums, per TCP conversation a three-way handshake, gap-free
non-overlapping sequence space, consistent acknowledgements, and exact reassembly.
 layer G  grid n in 0..40 x k in 1..8 (record of n bytes carried by k packets) on the real OutputBuilder
 layer S  sequences of decrypted records (direction, n, k) to depth 2 (thorough 3), IPv4 and IPv6
 layer P  program level: option combinations x capture kinds through run()
"""
import itertools
import types
from fractions import Fraction
from .. import harness, scen, engine
from ..model import cap, tls, net, pcapio

PROP = "C06"
LEVEL = "exploration"

NS = [0, 1, 2, 3, 7, 8, 9, 1460, 16384]
KS = [1, 2, 3, 4, 9]
NS3 = [0, 1, 3, 8, 1460]
KS3 = [1, 2, 4]


def describe(tier):
    return {
        "rule": "G: all (n,k) with n in 0..40, k in 1..8, both directions, IPv4/IPv6; S: all sequences of (direction, n, k) records "
                f"to depth 2 over n in {NS} x k in {KS}" + ("" if tier == "quick" else f" and to depth 3 over n in {NS3} x k in {KS3}") + "; P: product of option sets (-m absent/bare/"
                "pairs, -a, -c, -p, -g) x 15 capture kinds (incl. reordered and retransmitted TLS segments, client ports that are configured server ports, equal client and server port numbers in a capture stamped from 0). non-trivial: an output holding >= 1 TCP conversation or UDP datagram that "
                "passed every structural test; distinct = distinct scenario",
        "exhaustive": True,
        "bounds": {"grid": "n 0..40 x k 1..8", "sequence_depth": "2 (full alphabet)" if tier == "quick" else "2 (full alphabet), 3 (reduced alphabet)"},
        "min_nontrivial": 500,
        "chunksize": 2,
        "assumptions": [
            "oracle: strict reader/validator written with struct only; 'a standard reassembler recovers the streams' is decided "
            "by our own in-order reassembler with exact sequence/ack bookkeeping",
            "every output produced by the C01-C05, C08-C13 end-to-end checks also goes through the same strict reader",
        ],
    }


def cases(tier, seed):
    for v6 in (False, True):
        for k in range(1, 9):
            yield {"layer": "G", "k": k, "v6": v6}
    alpha = [(d, n, k) for d in ("c", "s") for n in NS for k in KS]
    for v6 in (False, True):
        for i in range(len(alpha)):
            if v6 and tier == "quick" and i % 3:
                continue
            yield {"layer": "S", "first": i, "depth": 2, "v6": v6, "alpha": "full"}
    if tier == "thorough":
        small = [(d, n, k) for d in ("c", "s") for n in NS3 for k in KS3]
        for v6 in (False, True):
            for i in range(len(small)):
                yield {"layer": "S", "first": i, "depth": 3, "v6": v6, "alpha": "small"}
    for ci in range(len(P_CAPTURES)):
        yield {"layer": "P", "capture": ci, "seed": seed}


def build_records(specs, base_ts=1000.0):
    """specs: [(dir, n, k)] -> list for OutputBuilder and the expected streams"""
    from tlexport.tlsrecord import TlsRecord
    recs = []
    want = {"c": b"", "s": b""}
    t = base_ts
    for i, (d, n, k) in enumerate(specs):
        data = bytes((i * 37 + j) & 0xFF for j in range(n))
        meta = []
        for _ in range(k):
            t += 0.25
            meta.append(types.SimpleNamespace(timestamp=t))
        rec = TlsRecord(bytearray(b"\x17\x03\x03\x00\x00"), meta, d == "s")
        recs.append((data, rec, d == "s"))
        want[d] += data
    return recs, want


def run_builder(specs, v6):
    from tlexport.output_builder import OutputBuilder
    recs, want = build_records(specs)
    if v6:
        sip, cip = "2001:db8::5e", "2001:db8::c1"
    else:
        sip, cip = "192.0.2.80", "10.1.0.2"
    ob = OutputBuilder(recs, sip, cip, 443, 40001, b"\x02\x5e\x00\x00\x00\x01", b"\x02\xc0\x00\x00\x00\x02", {}, v6, True)
    out = ob.build()
    pk = [(Fraction(ts).limit_denominator(1000), bytes(p)) for p, ts in out]
    return pk, want, recs


def check_builder(specs, v6):
    """None or (kind, detail)"""
    try:
        pk, want, recs = run_builder(specs, v6)
    except Exception as e:
        return "builder_raised", f"{type(e).__name__}: {e}"
    if not pk:
        if want["c"] or want["s"]:
            return "nothing_built", "records with data produced no packets"
        return None
    try:
        an = pcapio.analyse_packets(pk)
    except (pcapio.PcapngError, net.FrameError) as e:
        return "malformed_output", f"{type(e).__name__}: {e}"
    if len(an["tcp"]) != 1 or an["udp"]:
        return "unexpected_flows", str(list(an["tcp"]))
    c = list(an["tcp"].values())[0]
    if c["c2s"] != want["c"] or c["s2c"] != want["s"]:
        return "reassembly_differs", f"c2s {len(c['c2s'])}/{len(want['c'])} s2c {len(c['s2c'])}/{len(want['s'])}"
    # at most k segments per record, concatenation = the record
    data = [(d, p) for _, d, p, _ in c["data"]]
    pos = 0
    for (plain, rec, isserver), (d, n, k) in zip(recs, specs):
        got = b""
        cnt = 0
        while len(got) < len(plain):
            if pos >= len(data) or data[pos][0] != ("s2c" if isserver else "c2s"):
                return "record_split_wrong", f"record ({d},{n},{k}) not found contiguous in the output"
            got += data[pos][1]
            pos += 1
            cnt += 1
        if got != plain:
            return "record_split_wrong", f"record ({d},{n},{k}): segments do not concatenate to the record"
        if cnt > k:
            return "too_many_segments", f"record of {n} bytes carried by {k} packets re-split into {cnt}"
    return None


P_CAPTURES = ["tls_ok", "quic_ok", "tls_nokeys", "quic_nokeys", "quic_unknown_version", "http_on_443", "junk_udp", "empty", "mixed",
              "tls_reordered", "tls_retransmitted", "tls_many_segments_two_flows", "client_port_is_server_port", "equal_ports_epoch_zero", "silent_first_and_last"]
P_OPTS = {"m": [None, [], ["443:8081"], ["443:8081", "8443:9000"]], "a": [False, True], "c": [False, True], "p": [None, ["8443"]],
          "g": [False, True]}


def program_capture(kind, seed):
    ends = {}
    pk = []
    keylog = []

    def add_tls(idx, keys=True, **scn):
        f = scen.tls_flow(dict({"version": tls.TLS12, "suite": 0xC02F, "history": [("c", 40), ("s", 2000), ("c", 1)]}, **scn), seed, idx)
        ends[idx] = f.ends
        if keys:
            keylog.extend(f.keylog())
        return f.pkts

    def add_quic(idx, keys=True, **scn):
        f = scen.quic_flow(scn, seed, idx)
        ends[idx] = f.ends
        if keys:
            keylog.extend(f.keylog())
        return f.pkts

    lists = []
    if kind in ("tls_ok", "mixed"):
        lists.append(add_tls(0))
    if kind == "tls_ok":
        # full-size records carried by a single segment (loopback / TSO captures), IPv4 and IPv6
        f = scen.tls_flow({"version": tls.TLS13, "suite": 0x1302, "history": [("c", 16384), ("s", 16384), ("s", 16331)]}, seed, 7, mss=65000)
        ends[7] = f.ends
        keylog.extend(f.keylog())
        lists.append(f.pkts)
        f = scen.tls_flow({"version": tls.TLS12, "suite": 0x002F, "history": [("s", 16384), ("c", 16384)]}, seed, 8, mss=65000, v6=True)
        ends[8] = f.ends
        keylog.extend(f.keylog())
        lists.append(f.pkts)
    if kind == "client_port_is_server_port":
        # connections (TLS 1.2 with closing alerts, TLS 1.3, QUIC) whose ephemeral CLIENT port 44330 is itself a default server port
        for idx, scn in ((0, {"close_alerts": ("c", "s")}), (9, {"version": tls.TLS13, "suite": 0x1301, "close_alerts": ("s", "c")})):
            pk_ = add_tls(idx, **scn)
            ends[idx].client.port = 44330
            lists.append(pk_)
        pk_ = add_quic(1)
        ends[1].client.port = 44330
        lists.append(pk_)
    if kind == "silent_first_and_last":
        # sessions that export nothing (no keys / not TLS at all) open and close the capture, decryptable ones lie in between
        lists.append(add_tls(2, keys=False, version=tls.TLS13, suite=0x1301))
        lists.append(add_tls(0))
        lists.append(add_tls(9, version=tls.TLS10, suite=0x002F))
        e = cap.Ends(5)
        ends[5] = e
        lists.append(cap.tcp_packets(5, [("c", b"GET / HTTP/1.1\r\n\r\n"), ("s", b"HTTP/1.1 200 OK\r\n\r\nhi")]))
        lists.append(add_tls(10, keys=False))
    if kind == "equal_ports_epoch_zero":
        # client and server use the SAME port number (443 <-> 443, 44330 <-> 44330: still unique 4-tuples), and the capture's
        # timestamps are relative to its first packet (the first packet is stamped 0)
        for idx, port, scn in ((0, 443, {}), (9, 44330, {"version": tls.TLS13, "suite": 0x1301})):
            # (captured without the TCP handshake: the very first packet, stamped 0, carries the ClientHello)
            f = scen.tls_flow(dict({"version": tls.TLS12, "suite": 0xC02F, "history": [("c", 40), ("s", 2000), ("c", 1)]}, **scn), seed, idx,
                              handshake=False)
            ends[idx] = f.ends
            keylog.extend(f.keylog())
            ends[idx].client.port = port
            ends[idx].server.port = port
            lists.append(f.pkts)
        pk_ = add_quic(1)
        ends[1].client.port = 443
        lists.append(pk_)
    if kind in ("quic_ok", "mixed"):
        lists.append(add_quic(1))
    if kind in ("tls_nokeys", "mixed"):
        lists.append(add_tls(2, keys=False, version=tls.TLS13, suite=0x1301))
    if kind in ("quic_nokeys", "mixed"):
        lists.append(add_quic(3, keys=False, suite=0x1303))
    if kind in ("quic_unknown_version", "mixed"):
        e = cap.Ends(4)
        ends[4] = e
        lists.append(cap.udp_packets(4, [("c", b"\xc3\x6b\x33\x43\xcf\x08" + b"\x11" * 8 + b"\x08" + b"\x22" * 8 + b"\x00" * 1100),
                                          ("s", b"\x80\x00\x00\x00\x00\x08" + b"\x22" * 8 + b"\x08" + b"\x11" * 8 + b"\x00\x00\x00\x01")]))
    if kind in ("http_on_443", "mixed"):
        e = cap.Ends(5)
        ends[5] = e
        lists.append(cap.tcp_packets(5, [("c", b"GET / HTTP/1.1\r\n\r\n"), ("s", b"HTTP/1.1 200 OK\r\n\r\nhi")]))
    if kind in ("junk_udp", "mixed"):
        e = cap.Ends(6, server_port=5353)
        ends[6] = e
        lists.append(cap.udp_packets(6, [("c", b"\x40" + b"\x99" * 30), ("s", b"\x00\x01\x02"), ("c", b"\xff" * 1200), ("s", b"\x7f")]))
    if kind in ("tls_reordered", "tls_retransmitted", "tls_many_segments_two_flows"):
        hist = [("c", 700), ("s", 3000), ("c", 400), ("s", 900), ("c", 20)]
        f = scen.tls_flow({"version": tls.TLS12, "suite": 0x003C, "history": hist}, seed, 0, mss=300)
        ends[0] = f.ends
        keylog.extend(f.keylog())
        pk0 = list(f.pkts)
        data_idx = [i for i, p in enumerate(pk0) if p.payload]
        if kind == "tls_reordered":
            # every second non-first segment of a direction is captured one position late (after its successor)
            seen_dir = set()
            moved = 0
            i = 0
            while i < len(pk0) - 1:
                p, q = pk0[i], pk0[i + 1]
                if p.payload and q.payload and p.dir == q.dir and p.dir in seen_dir and moved % 2 == 0:
                    pk0[i], pk0[i + 1] = q, p
                    i += 2
                    moved += 1
                    continue
                if p.payload:
                    if p.dir in seen_dir and q.payload and p.dir == q.dir:
                        moved += 1
                    seen_dir.add(p.dir)
                i += 1
        elif kind == "tls_retransmitted":
            for i in data_idx[::-3]:
                pk0.insert(min(len(pk0), i + 2), pk0[i])
        lists = [pk0]
        if kind == "tls_many_segments_two_flows":
            g = scen.tls_flow({"version": tls.TLS13, "suite": 0x1301, "history": hist}, seed, 1, mss=97, v6=True)
            ends[1] = g.ends
            keylog.extend(g.keylog())
            lists.append(g.pkts)
    pk = cap.stamp([p.copy() for p in scen.round_robin(lists)], ends, **({"t0": 0} if kind == "equal_ports_epoch_zero" else {})) if lists else []
    return pk, keylog


def run_case(case):
    harness.load()
    fails, nontriv, outcomes = [], [], set()
    n = 0
    sample = None
    if case["layer"] == "G":
        k, v6 = case["k"], case["v6"]
        for nbytes in range(0, 41):
            for d in ("c", "s"):
                specs = [("c", 5, 1), (d, nbytes, k), ("s", 3, 1)]
                r = check_builder(specs, v6)
                n += 1
                if r:
                    fails.append({"kind": r[0], "sig": {"layer": "G", "n": nbytes, "k": k, "dir": d, "v6": v6}, "detail": r[1]})
                else:
                    nontriv.append(f"G{nbytes}/{k}/{d}/{v6}")
        sample = {"layer": "G", "k": k, "v6": v6, "n": "0..40"}
    elif case["layer"] == "S":
        alpha = [(d, nn, k) for d in ("c", "s") for nn in (NS if case.get("alpha", "full") == "full" else NS3)
                 for k in (KS if case.get("alpha", "full") == "full" else KS3)]
        v6 = case["v6"]

        def rec(seq):
            nonlocal n, sample
            r = check_builder(seq, v6)
            n += 1
            if r:
                if len(fails) < 30:
                    fails.append({"kind": r[0], "sig": {"layer": "S", "records": [list(x) for x in seq], "v6": v6}, "detail": r[1]})
            else:
                nontriv.append("S" + str(seq) + str(v6))
                if sample is None and len(seq) == case["depth"]:
                    sample = {"layer": "S", "records": [list(x) for x in seq], "v6": v6}
            if len(seq) < case["depth"]:
                for a in alpha:
                    rec(seq + [a])
        rec([alpha[case["first"]]])
    else:
        kind = P_CAPTURES[case["capture"]]
        pk, keylog = program_capture(kind, case["seed"])
        for m, a, c, p, g in itertools.product(P_OPTS["m"], P_OPTS["a"], P_OPTS["c"], P_OPTS["p"], P_OPTS["g"]):
            args = []
            if p:
                args += ["-p"] + p
            if m is not None:
                args += ["-m"] + m
            if a:
                args.append("-a")
            if c:
                args.append("-c")
            if g:
                args.append("-g")
            res = scen.run(pk, keylog, args)
            n += 1
            sig = {"layer": "P", "capture": kind, "args": " ".join(args)}
            try:
                an = scen.analyse(res)
            except scen.ExportError as e:
                fails.append({"kind": e.kind, "sig": sig, "detail": e.detail})
                continue
            if kind.startswith("tls_re") or kind.startswith("tls_many"):
                c = [x for x in an["tcp"].values()]
                if not c or sum(len(x["c2s"]) + len(x["s2c"]) for x in c) < 5000:
                    fails.append({"kind": "reordered_capture_not_fully_exported", "sig": sig,
                                  "detail": f"{sum(len(x['c2s']) + len(x['s2c']) for x in c)} bytes exported"})
                    continue
            if an["tcp"] or an["udp"] or kind in ("empty", "tls_nokeys", "quic_nokeys", "http_on_443", "junk_udp", "quic_unknown_version"):
                nontriv.append(engine.jhash(sig))
            outcomes.add(scen.digest(res.out))
            if sample is None:
                sample = {"layer": "P", "capture": kind, "args": args, "tcp_conversations": len(an["tcp"]), "udp_flows": len(an["udp"]),
                          "packets": len(an["packets"])}
    r = {"n": n, "fails": fails, "nontrivial": nontriv, "outcomes": sorted(outcomes)}
    if sample:
        r["sample"] = sample
    return r
