"""C15 - derived traffic keys, as actually installed for a connection, equal the RFC key schedules.

Structurally exhaustive: every table suite x every version it is valid for (TLS), every initial
DCID length 0..20 x 4 suites x key-update generations 0..3 x with/without early secret (QUIC);
the data (secrets, randoms, connection IDs) are DRAWS per structural case from VERIF_SEED.
Observation: the real Decryptor / QuicSession objects after a modelled handshake went through run().
Oracle: mc/model/kdf.py (hashlib/hmac only)."""
from .. import harness, scen, engine
from ..model import tls, cap, iana, kdf, quic

PROP = "C15"
LEVEL = "exploration"
DRAWS = 3


def describe(tier):
    return {
        "rule": "TLS: all table suites x valid versions (x TLS 1.3 with/without handshake secrets) x 3 data draws (+ for TLS <= 1.2 a searched draw whose key block starts with a zero byte), every ordered pair of different TLS 1.3 suites in one run, and three TLS 1.3 "
                "connections in one run for every pattern of complete / traffic-only key-log entries; TLS 1.3 and QUIC with the exporter / early-exporter / "
                "early-traffic lines of the same client random in the log: all 24 orders of the four traffic-secret lines and all 210 interleavings of the three other lines; QUIC (incl. every ordered pair "
                "offered-first / negotiated suite): initial "
                "DCID length 0..20 x 4 suites x generations 0..3 x early secret present/absent (+ Retry) x 3 draws. "
                "non-trivial: every structural case whose installed material was compared; distinct = (structure, draw)",
        "exhaustive": False,
        "bounds": {"draws_per_structure": DRAWS if tier == "quick" else 12, "dcid_len": "0..20", "generations": "0..3"},
        "min_nontrivial": 500,
        "assumptions": [
            "exhaustive over structure (suite, version, lengths, generations); the data dimension is sampled (3 draws per "
            "structural case) because the KDF code has no data-dependent control flow - lengths are the only thing that steers "
            "it and lengths are enumerated",
            "reference KDFs in mc/model/kdf.py, cross-checked against scapy's PRF, cryptography's HKDF and RFC 9001 Appendix A "
            "by mc/validate.py",
            "only material the RFC defines for the suite/version is compared (no IV for explicit-IV CBC in TLS 1.1/1.2; no MAC "
            "key for AEAD); the RSA key-log label is unreachable (the key-log pattern requires a 64-digit client random)",
        ],
    }


def table_codes():
    harness.load()
    import tlexport.cipher_suite_parser as csp
    return sorted(int.from_bytes(k, "big") for k in csp.cipher_suites)


def cases(tier, seed):
    for code in table_codes():
        yield {"kind": "tls", "suite": code, "seed": seed, "draws": DRAWS if tier == "quick" else 12}
    for suite in (0x1301, 0x1302, 0x1303, 0x1304):
        for dl in range(0, 21):
            yield {"kind": "quic", "suite": suite, "odcid_len": dl, "seed": seed, "draws": DRAWS if tier == "quick" else 12}
        yield {"kind": "quic", "suite": suite, "odcid_len": 8, "retry": True, "seed": seed, "draws": DRAWS if tier == "quick" else 12}
        for first in (0x1301, 0x1302, 0x1303, 0x1304):
            if first != suite:
                # the server selects a suite that is not the client's first choice
                yield {"kind": "quic", "suite": suite, "odcid_len": 8, "offered": [first, suite], "seed": seed,
                       "draws": DRAWS if tier == "quick" else 12}
    for code in (0x1301, 0x1302, 0x1303, 0x1304, 0x1305):
        yield {"kind": "tls13_pair", "suite": code, "seed": seed}
        # ... and every ordered pair of DIFFERENT TLS 1.3 suites in one run (key lengths 16/32, hashes SHA-256/384 side by side)
        yield {"kind": "tls13_pair", "suite": code, "second": [c for c in (0x1301, 0x1302, 0x1303, 0x1304, 0x1305) if c != code], "seed": seed}
    for proto, codes in (("tls13", (0x1301, 0x1302, 0x1303)), ("quic", (0x1301, 0x1302, 0x1303))):
        for code in codes:
            for part in range(3):
                yield {"kind": "keylog_lines", "proto": proto, "suite": code, "part": part, "seed": seed}


def b(x):
    return None if x is None else bytes(x)


def run_case(case):
    harness.load()
    seed = case["seed"]
    fails, nontriv, outcomes = [], [], set()
    n = 0
    sample = None
    if case["kind"] == "tls":
        code = case["suite"]
        try:
            sp = iana.parse_name(scen.suite_name(code))
        except Exception:
            return {"n": 0}
        for v in (tls.SSL30, tls.TLS10, tls.TLS11, tls.TLS12, tls.TLS13):
            if not tls.suite_valid_for(sp, v):
                continue
            for hs in ([True, False] if v == tls.TLS13 else [True]):
                draws = list(range(case.get("draws", DRAWS)))
                if v != tls.TLS13:
                    # one more draw, searched for: secrets and randoms whose key block STARTS WITH A ZERO BYTE (a data value that
                    # steers integer-based implementations of the PRF's final XOR; one connection in 256 has it)
                    for k in range(100, 4000):
                        c0 = scen.tls_conn({"version": v, "suite": code, "hs_secrets": hs, "history": [("c", 3), ("s", 3)]}, seed, key=("draw", k))
                        first = c0.km["client_key"] if sp.aead else c0.km["client_mac"]
                        if first[0] == 0:
                            draws.append(k)
                            break
                for draw in draws:
                    scn = {"version": v, "suite": code, "hs_secrets": hs, "history": [("c", 3), ("s", 3)]}
                    conn = scen.tls_conn(scn, seed, key=("draw", draw))
                    ends = cap.Ends(1)
                    pk = cap.stamp(scen.tls_packets(conn), {0: ends})
                    res, (sessions, _q) = scen.run(pk, conn.keylog, want_objects=True)
                    n += 1
                    sig = {"kind": "tls", "version": tls.VERSION_NAMES[v], "suite": f"{code:#06x}", "hs_secrets": hs}
                    if not res.ok or len(sessions) != 1 or sessions[0].decryptor is None:
                        fails.append({"kind": "no_keys_installed", "sig": sig, "detail": res.status + res.detail[-300:]})
                        continue
                    d = sessions[0].decryptor
                    diffs = []
                    if v == tls.TLS13:
                        km = conn.km
                        want = {"client_application_key": km["cap"].key, "client_application_iv": km["cap"].iv,
                                "server_application_key": km["sap"].key, "server_application_iv": km["sap"].iv}
                        if hs:
                            want.update({"client_handshake_key": km["chs"].key, "client_handshake_iv": km["chs"].iv,
                                         "server_handshake_key": km["shs"].key, "server_handshake_iv": km["shs"].iv})
                    else:
                        km = conn.km
                        want = {"client_key": km["client_key"], "server_key": km["server_key"]}
                        if not sp.aead:
                            want["client_mac"] = km["client_mac"]
                            want["server_mac"] = km["server_mac"]
                        if sp.aead or (sp.mode == "CBC" and v <= tls.TLS10):
                            want["client_iv"] = km["client_iv"]
                            want["server_iv"] = km["server_iv"]
                    for name, w in want.items():
                        g = b(getattr(d, name, None))
                        if g != w:
                            diffs.append(f"{name}: installed {g.hex() if g is not None else None} rfc {w.hex()}")
                    if diffs:
                        fails.append({"kind": "installed_key_differs", "sig": sig, "detail": "; ".join(diffs)[:600]})
                    else:
                        nontriv.append(engine.jhash([sig, draw]))
                        outcomes.add(str(sorted((k, len(x)) for k, x in want.items())))
                        if sample is None:
                            sample = {"case": sig, "compared": {k: x.hex() for k, x in want.items()}}
    elif case["kind"] == "keylog_lines":
        # the key log of one connection holds, next to the four traffic secrets, the other lines a TLS 1.3 stack writes for the
        # same client random (EXPORTER_SECRET, EARLY_EXPORTER_SECRET, CLIENT_EARLY_TRAFFIC_SECRET): every permutation of the
        # four traffic-secret lines (others in front / behind) and every interleaving of the three others into them
        import itertools
        code, proto = case["suite"], case["proto"]
        if proto == "tls13":
            conn = scen.tls_conn({"version": tls.TLS13, "suite": code, "history": [("c", 3), ("s", 3)]}, seed, key=("kl",))
            pk = cap.stamp(scen.tls_packets(conn), {0: cap.Ends(1)})
        else:
            conn = scen.quic_conn({"suite": code}, seed, key=("kl",))
            pk = cap.stamp(scen.quic_packets(conn), {0: cap.Ends(1)})
        base = [l for l in conn.keylog if l.split()[0] in ("CLIENT_HANDSHAKE_TRAFFIC_SECRET", "SERVER_HANDSHAKE_TRAFFIC_SECRET",
                                                          "CLIENT_TRAFFIC_SECRET_0", "SERVER_TRAFFIC_SECRET_0")]
        assert len(base) == 4, base
        cr = base[0].split()[1]
        hl = len(base[0].split()[2]) // 2
        rng = scen.rng_for(seed, "c15kl", code)
        extras = [f"{lab} {cr} {rng.randbytes(hl).hex()}" for lab in ("EXPORTER_SECRET", "EARLY_EXPORTER_SECRET", "CLIENT_EARLY_TRAFFIC_SECRET")]
        orders = []
        for perm in itertools.permutations(base):
            orders.append(("permuted, others in front", extras + list(perm)))
            orders.append(("permuted, others behind", list(perm) + extras))
        for slots in itertools.permutations(range(7), 3):
            lines = [None] * 7
            for x, at in zip(extras, slots):
                lines[at] = x
            it = iter(base)
            orders.append(("others interleaved", [l if l is not None else next(it) for l in lines]))
        for oi, (oname, lines) in enumerate(orders):
            if oi % 3 != case["part"]:
                continue
            res, (sessions, qs) = scen.run(pk, lines, want_objects=True)
            n += 1
            labels = [l.split()[0] for l in lines]
            sig = {"kind": "keylog_lines", "proto": proto, "suite": f"{code:#06x}", "order": oname,
                   "early_traffic_after_client_traffic": labels.index("CLIENT_EARLY_TRAFFIC_SECRET") > labels.index("CLIENT_TRAFFIC_SECRET_0"),
                   "exporter_after_server_traffic": labels.index("EXPORTER_SECRET") > labels.index("SERVER_TRAFFIC_SECRET_0")}
            diffs = []
            if proto == "tls13":
                if not res.ok or len(sessions) != 1 or sessions[0].decryptor is None:
                    fails.append({"kind": "no_keys_installed", "sig": sig, "detail": res.status + res.detail[-300:]})
                    continue
                d, km = sessions[0].decryptor, conn.km
                want = {"client_application_key": km["cap"].key, "client_application_iv": km["cap"].iv,
                        "server_application_key": km["sap"].key, "server_application_iv": km["sap"].iv,
                        "client_handshake_key": km["chs"].key, "client_handshake_iv": km["chs"].iv,
                        "server_handshake_key": km["shs"].key, "server_handshake_iv": km["shs"].iv}
                for name, w in want.items():
                    g = b(getattr(d, name, None))
                    if g != w:
                        diffs.append(f"{name}: installed {g.hex() if g is not None else None} rfc {w.hex()}")
            else:
                if not res.ok or len(qs) != 1:
                    fails.append({"kind": "no_session", "sig": sig, "detail": res.status + res.detail[-300:]})
                    continue
                q = qs[0]
                want = {}
                for stage, pairs in (("handshake", (("client", conn.keys[("hs", "c")]), ("server", conn.keys[("hs", "s")]))),
                                     ("application", (("client", conn.app["c"][0]), ("server", conn.app["s"][0])))):
                    for side, k in pairs:
                        want[f"{side}_{stage}_key"], want[f"{side}_{stage}_iv"], want[f"{side}_{stage}_hp"] = k.key, k.iv, k.hp
                for name, w in want.items():
                    g = b(q.keys.get(name))
                    if g != w:
                        diffs.append(f"{name}: installed {g.hex() if g is not None else None} rfc {w.hex()}")
            if diffs:
                fails.append({"kind": "installed_key_differs", "sig": sig, "sub": {"labels": labels}, "detail": "; ".join(diffs)[:600]})
            else:
                nontriv.append(engine.jhash([sig, oi]))
    elif case["kind"] == "tls13_pair":
        # several TLS 1.3 connections in ONE run, with complete and with traffic-only key-log entries, in every order
        code = case["suite"]
        import itertools
        patterns = [(p, [code] * 3) for p in itertools.product((True, False), repeat=3)]
        if case.get("second"):
            patterns = [((True, True, True), [code, c2, code]) for c2 in case["second"]] + [((True, False, True), [c2, code, c2]) for c2 in case["second"]]
        for pattern, codes in patterns:
            flows = [scen.tls_flow({"version": tls.TLS13, "suite": codes[i], "hs_secrets": hs, "history": [("c", 3), ("s", 3)]}, seed, i,
                                   key=("pair", str(pattern))) for i, hs in enumerate(pattern)]
            ends = {f.id: f.ends for f in flows}
            pk = cap.stamp([p for f in flows for p in f.pkts], ends)
            kl = [l for f in flows for l in f.keylog()]
            res, (sessions, _q) = scen.run(pk, kl, want_objects=True)
            n += 1
            sig = {"kind": "tls13_pair", "suites": [f"{c:#06x}" for c in codes], "hs_secrets_pattern": str(pattern)}
            if not res.ok or len(sessions) != 3:
                fails.append({"kind": "no_keys_installed", "sig": sig, "detail": res.status + res.detail[-300:]})
                continue
            diffs = []
            for f, sess, hs in zip(flows, sessions, pattern):
                d = sess.decryptor
                km = f.conn.km
                want = {"client_application_key": km["cap"].key, "client_application_iv": km["cap"].iv,
                        "server_application_key": km["sap"].key, "server_application_iv": km["sap"].iv}
                if hs:
                    want.update({"client_handshake_key": km["chs"].key, "client_handshake_iv": km["chs"].iv,
                                 "server_handshake_key": km["shs"].key, "server_handshake_iv": km["shs"].iv})
                else:
                    # without handshake secrets the session must fall back to ITS OWN application keys
                    want.update({"client_handshake_key": km["cap"].key, "server_handshake_key": km["sap"].key})
                for name, w in want.items():
                    g = b(getattr(d, name, None)) if d is not None else None
                    if g != w:
                        diffs.append(f"connection {f.id} {name}: installed {g.hex() if g else None} rfc {w.hex()}")
            if diffs:
                fails.append({"kind": "installed_key_differs", "sig": sig, "detail": "; ".join(diffs)[:600]})
            else:
                nontriv.append(engine.jhash(sig))
    else:
        suite, dl = case["suite"], case["odcid_len"]
        hname, key_len, kind = quic.SUITES[suite]
        for early in (False, True):
            for draw in range(case.get("draws", DRAWS)):
                opts = {"suite": suite, "odcid_len": dl, "script": [], "early_secret_in_log": early, "retry": bool(case.get("retry"))}
                if case.get("offered"):
                    opts["offered"] = case["offered"]
                conn = scen.quic_conn(opts, seed, key=("draw", draw))
                gens = 3
                for g in range(gens + 1):
                    for d in ("c", "s"):
                        fr, data = conn.stream_frames([(0 if d == "c" else 3, 10)])
                        conn.dgram(d, [conn.short_pkt(d, fr, gen=g)], stream=data, tag=f"g{g}{d}")
                ends = cap.Ends(1)
                pk = cap.stamp(scen.quic_packets(conn), {0: ends})
                res, (_s, qs) = scen.run(pk, conn.keylog, want_objects=True)
                n += 1
                sig = {"kind": "quic", "suite": f"{suite:#06x}", "odcid_len": dl, "early": early, "retry": bool(case.get("retry")),
                       "offered_first": f"{case['offered'][0]:#06x}" if case.get("offered") else "negotiated"}
                if not res.ok or len(qs) != 1:
                    fails.append({"kind": "no_session", "sig": sig, "detail": res.status + res.detail[-300:]})
                    continue
                q = qs[0]
                want = {}
                ini_c, ini_s = conn.keys[("ini", "c")], conn.keys[("ini", "s")]
                for side, k in (("client", ini_c), ("server", ini_s)):
                    want[f"{side}_initial_key"], want[f"{side}_initial_iv"], want[f"{side}_initial_hp"] = k.key, k.iv, k.hp
                for side, k in (("client", conn.keys[("hs", "c")]), ("server", conn.keys[("hs", "s")])):
                    want[f"{side}_handshake_key"], want[f"{side}_handshake_iv"], want[f"{side}_handshake_hp"] = k.key, k.iv, k.hp
                for side, k in (("client", conn.app["c"][0]), ("server", conn.app["s"][0])):
                    want[f"{side}_application_key"], want[f"{side}_application_iv"], want[f"{side}_application_hp"] = k.key, k.iv, k.hp
                if early:
                    k = conn.keys[("early", "c")]
                    want["client_early_key"], want["client_early_iv"], want["client_early_hp"] = k.key, k.iv, k.hp
                diffs = []
                for name, w in want.items():
                    g = b(q.keys.get(name))
                    if g != w:
                        diffs.append(f"{name}: installed {g.hex() if g is not None else None} rfc {w.hex()}")
                apps = q.decryptors.get("Application", [])
                if len(apps) < gens + 1:
                    diffs.append(f"only {len(apps)} 1-RTT key generations installed, {gens + 1} used")
                for g in range(min(len(apps), gens + 1)):
                    ks = apps[g].keys
                    w = [conn.app["s"][g].key, conn.app["s"][g].iv, conn.app["c"][g].key, conn.app["c"][g].iv,
                         conn.app["s"][g].secret, conn.app["c"][g].secret]
                    for i, nm in enumerate(("server_key", "server_iv", "client_key", "client_iv", "server_secret", "client_secret")):
                        if b(ks[i]) != w[i]:
                            diffs.append(f"generation {g} {nm}: installed {b(ks[i]).hex()} rfc {w[i].hex()}")
                if diffs:
                    fails.append({"kind": "installed_key_differs", "sig": sig, "detail": "; ".join(diffs)[:700]})
                else:
                    nontriv.append(engine.jhash([sig, draw]))
                    outcomes.add(str(sorted((k, len(x)) for k, x in want.items())))
                    if sample is None:
                        sample = {"case": sig, "compared": sorted(want) + [f"1-RTT generations 0..{gens}"]}
    r = {"n": n, "fails": fails, "nontrivial": nontriv, "outcomes": sorted(outcomes)}
    if sample:
        r["sample"] = sample
    return r
