"""C13 - metadata export (-a) only adds packets; application data is unchanged.

product: (all table suites x valid versions, handshake shapes k<=1, QUIC default + k<=1) x {-a, no -a}.
Oracle: TLS - the (direction, payload) sequence of payload-carrying packets without -a is a subsequence
of the sequence with -a, and the ClientHello and ServerHello records appear verbatim as payloads of packets
of their own; QUIC - per direction every piece of stream data appears, in order, inside the concatenated
datagram payloads exported with -a."""
from .. import harness, scen, engine
from ..model import cap, tls, iana
from . import c01, c02

PROP = "C13"
LEVEL = "exploration"


def describe(tier):
    return {
        "rule": "TLS: every table suite x valid version (x EtM, x TLS 1.3 hs secrets) with a 6-record history ended by closing alerts (per cipher-state class also by a heartbeat record, which -a must not add), every cipher-state class "
                "with a full-duplex capture (records spanning segments, packets of the other direction between them) and with captures in which consecutive writes share segments (server / client speaking first, MSS 1460/400/77), and every handshake "
                "shape within 1 deviation for 9 classes; QUIC: default connection and every 1-deviation scenario of C02's menu; each "
                "run with and without -a. non-trivial: the -a output holds strictly more payload-carrying packets than the plain "
                "output and the plain output holds data; distinct = distinct scenario",
        "exhaustive": True,
        "bounds": {"deviations": 1},
        "min_nontrivial": 300,
        "assumptions": ["same peer models as C01/C02; 'subsequence' is decided greedily on (direction, payload) pairs"],
    }


def cases(tier, seed):
    for code in c01.table_codes():
        yield {"layer": "A", "suite": code, "seed": seed}
    for (v, code, etm, hs) in c01.SHAPE_CLASSES:
        yield {"layer": "C", "v": v, "suite": code, "etm": etm, "hs": hs, "seed": seed, "k": 1 if tier == "quick" else 2}
    for (v, code, etm, hs) in c01.classes():
        yield {"layer": "D", "v": v, "suite": code, "etm": etm, "hs": hs, "seed": seed}
    yield {"layer": "Q", "d1": None, "seed": seed}
    for d1 in c02.ALTS:
        yield {"layer": "Q", "d1": d1, "seed": seed}


def is_subseq(a, b):
    it = iter(b)
    return all(any(x == y for y in it) for x in a)


def tls_pair(scn, seed, sig, fails, duplex=False, merged_mss=None):
    conn = scen.tls_conn(scn, seed)
    ends = cap.Ends(6)
    if merged_mss:
        # consecutive writes of one direction share segments: the end of a handshake flight and the first application
        # records travel in the same segment, records straddle segment boundaries
        pk = cap.stamp(scen.tls_packets(conn, merged=True, mss=merged_mss), {0: ends})
    elif duplex:
        # records spanning segments, with packets of the other direction captured between the segments of a record
        base = scen.tls_packets(conn, mss=400)
        pk = cap.stamp(scen.duplex_interleave(base, scen.first_app_packet(conn, base)), {0: ends})
    else:
        pk = cap.stamp(scen.tls_packets(conn), {0: ends})
    plain = scen.run(pk, conn.keylog)
    meta = scen.run(pk, conn.keylog, ["-a"])
    try:
        an_p = scen.analyse(plain)
        an_m = scen.analyse(meta)
    except scen.ExportError as e:
        fails.append({"kind": e.kind, "sig": sig, "detail": e.detail})
        return False
    cp, cm = scen.tcp_streams(an_p, ends), scen.tcp_streams(an_m, ends)
    seq_p = [(d, p) for _, d, p, _ in cp["data"]] if cp else []
    seq_m = [(d, p) for _, d, p, _ in cm["data"]] if cm else []
    if not is_subseq(seq_p, seq_m):
        fails.append({"kind": "application_packets_changed_by_metadata", "sig": sig,
                      "detail": f"{len(seq_p)} payload packets without -a are not a subsequence of the {len(seq_m)} with -a"})
        return False
    # what -a adds must be handshake, alert or change-cipher-spec material: no added packet may be a piece of a record of
    # another kind (application-data ciphertext, a record of another content type)
    extra = list(seq_m)
    for x in seq_p:
        if x in extra:
            extra.remove(x)
    for d, payload in extra:
        if len(payload) < 7:
            continue
        for r in conn.records:
            if r.kind in ("app", "other") and r.dir == ("c" if d == "c2s" else "s") and payload in r.raw:
                fails.append({"kind": "metadata_adds_other_material", "sig": dict(sig, record_kind=r.kind),
                              "detail": f"-a adds a packet with {len(payload)} bytes of a record of content type {r.raw[0]} ({r.kind})"})
                return False
    want_c = (conn.plain["c"], conn.plain["s"])
    if cp is None or (cp["c2s"], cp["s2c"]) != want_c:
        fails.append({"kind": "plain_export_wrong", "sig": sig, "detail": "export without -a differs from the plaintext"})
        return False
    def verbatim(d, raw):
        # the record is the payload of a packet of its own - or, when it was carried in k segments, of k consecutive
        # packets of its own (one output packet per source packet, as for application records): nothing else shares them
        dirseq = [p for dd, p in seq_m if dd == d]
        for i in range(len(dirseq)):
            acc = b""
            for j in range(i, len(dirseq)):
                acc += dirseq[j]
                if acc == raw:
                    return True
                if not raw.startswith(acc):
                    break
        return False
    for name, rec, d in (("ClientHello", conn.client_hello_rec, "c2s"), ("ServerHello", conn.server_hello_rec, "s2c")):
        if not verbatim(d, rec.raw):
            fails.append({"kind": "hello_record_not_verbatim", "sig": dict(sig, record=name),
                          "detail": f"{name} record ({len(rec.raw)} bytes) is not the payload of a packet of its own with -a"})
            return False
    return len(seq_m) > len(seq_p) and len(seq_p) > 0


def quic_pair(sc, seed, sig, fails):
    conn = scen.quic_conn(c02.to_model(sc), seed)
    ends = cap.Ends(5, v6=bool(sc.get("v6")))
    pk = cap.stamp(scen.quic_packets(conn), {0: ends})
    c02.restamp(pk, sc.get("ts"))
    plain = scen.run(pk, conn.keylog)
    meta = scen.run(pk, conn.keylog, ["-a"])
    try:
        an_p = scen.analyse(plain)
        an_m = scen.analyse(meta)
    except scen.ExportError as e:
        fails.append({"kind": e.kind, "sig": sig, "detail": e.detail})
        return False
    r = scen.compare_quic(an_p, ends, conn)
    if r:
        fails.append({"kind": "plain_export_wrong", "sig": sig, "detail": r[1]})
        return False
    ex = scen.udp_export(an_m, ends)
    for d in ("c", "s"):
        blob = b"".join(p for dd, p, _ in ex if dd == d)
        pos = 0
        for dd, piece in conn.truth():
            if dd != d:
                continue
            i = blob.find(piece, pos)
            if i < 0:
                fails.append({"kind": "stream_data_missing_with_metadata", "sig": dict(sig, dir=d),
                              "detail": f"a {len(piece)}-byte piece of stream data does not appear (in order) in the -a export"})
                return False
            pos = i + len(piece)
    return sum(len(p) for _, p, _ in ex) > sum(len(p) for _, p in conn.truth())


def run_case(case):
    harness.load()
    seed = case["seed"]
    fails, nontriv = [], []
    n = 0
    sample = None

    def tls_one(scn, sig):
        nonlocal n, sample
        ok = tls_pair(scn, seed, sig, fails)
        n += 2
        if ok:
            nontriv.append(engine.jhash(sig))
            if sample is None:
                sample = {"scenario": sig}

    if case["layer"] == "A":
        code = case["suite"]
        try:
            sp = iana.parse_name(scen.suite_name(code))
        except Exception:
            return {"n": 0}
        reps = {(c[0], c[1], c[2], c[3]) for c in c01.classes()}
        for v in (tls.SSL30, tls.TLS10, tls.TLS11, tls.TLS12, tls.TLS13):
            if not tls.suite_valid_for(sp, v):
                continue
            for etm in ([False, True] if (sp.mode == "CBC" and v != tls.SSL30) else [False]):
                for hs in ([True, False] if v == tls.TLS13 else [True]):
                    scn = {"version": v, "suite": code, "etm": etm, "hs_secrets": hs, "tickets": 1 if v == tls.TLS13 else 0,
                           "history": [("c", 40), ("s", 100), ("s", 0), ("c", 7), ("s", 300), ("c", 1)]}
                    scn["close_alerts"] = ("c", "s") if code % 2 else ("s", "c")
                    tls_one(scn, {"layer": "A", "class": c01.class_name(v, code, etm, hs), "suite": f"{code:#06x}"})
                    if (v, code, etm, hs) in reps and v != tls.TLS13:
                        # an encrypted handshake record that is no Finished in mid-stream (HelloRequest, which the client ignores)
                        h2 = [("c", 40), ("s", 100), ("s", "hello_request"), ("s", 60), ("c", 7), ("s", "hello_request"), ("c", 9), ("s", 5)]
                        tls_one(dict(scn, history=h2), {"layer": "A", "class": c01.class_name(v, code, etm, hs), "suite": f"{code:#06x}",
                                                        "hello_request": True})
                    if (v, code, etm, hs) in reps:
                        for d in ("c", "s"):
                            tls_one(dict(scn, close_alerts=None, trailing_other=(d,)),
                                    {"layer": "A", "class": c01.class_name(v, code, etm, hs), "suite": f"{code:#06x}", "trailing_heartbeat": d})
    elif case["layer"] == "D":
        v, code, etm, hs = case["v"], case["suite"], case["etm"], case["hs"]
        scn = {"version": v, "suite": code, "etm": etm, "hs_secrets": hs,
               "history": [("c", 1000), ("s", 30), ("c", 900), ("s", 1100), ("c", 20), ("s", 700), ("c", 5)]}
        sig = {"layer": "D", "class": c01.class_name(v, code, etm, hs), "capture": "full duplex interleaving"}
        ok = tls_pair(scn, seed, sig, fails, duplex=True)
        n += 2
        if ok:
            nontriv.append(engine.jhash(sig))
        for first in ("s", "c"):
            for mss in (1460, 400, 77):
                hist = [("s", 30), ("s", 500), ("c", 90), ("c", 6), ("s", 210), ("s", 1)] if first == "s" else \
                       [("c", 30), ("c", 500), ("s", 90), ("s", 6), ("c", 210)]
                sig = {"layer": "D", "class": c01.class_name(v, code, etm, hs), "capture": f"writes sharing segments, {first} speaks first", "mss": mss}
                ok = tls_pair(dict(scn, history=hist), seed, sig, fails, merged_mss=mss)
                n += 2
                if ok:
                    nontriv.append(engine.jhash(sig))
    elif case["layer"] == "C":
        v, code, etm, hs = case["v"], case["suite"], case["etm"], case["hs"]
        menu = c01.SHAPES_13 if v == tls.TLS13 else c01.SHAPES_LEGACY
        base = {"version": v, "suite": code, "etm": etm, "hs_secrets": hs, "history": [("c", 40), ("s", 100), ("c", 7)]}
        tls_one(base, {"layer": "C", "class": c01.class_name(v, code, etm, hs), "shape": {}})
        for d1, vals in menu.items():
            if v == tls.SSL30 and d1 in ("exts", "pad_blocks"):
                continue
            for val in vals:
                scn = dict(base)
                scn[d1] = val
                if c01.skip_shape(scn):
                    continue
                tls_one(scn, {"layer": "C", "class": c01.class_name(v, code, etm, hs), "shape": {d1: str(val)}})
                if case.get("k", 1) >= 2:
                    for d2, vals2 in menu.items():
                        if d2 <= d1 or (v == tls.SSL30 and d2 in ("exts", "pad_blocks")):
                            continue
                        for val2 in vals2:
                            s2 = dict(scn)
                            s2[d2] = val2
                            if c01.skip_shape(s2):
                                continue
                            tls_one(s2, {"layer": "C", "class": c01.class_name(v, code, etm, hs), "shape": {d1: str(val), d2: str(val2)}})
    else:
        scs = [{}] if case["d1"] is None else [{case["d1"]: v} for v in c02.ALTS[case["d1"]]]
        if case["d1"] is None:
            # handshake material on BOTH sides of the stream data inside one packet (CRYPTO | STREAM | CRYPTO), and other pairs
            scs += [{"before": b, "after": a} for b in ("CRYPTO", "NEW_TOKEN", "ACK") for a in ("CRYPTO", "HANDSHAKE_DONE", "PADDING")]
        for sc in scs:
            if not c02.valid(sc):
                continue
            sig = {"layer": "Q", "dev": {k: str(v) for k, v in sc.items()}}
            ok = quic_pair(sc, seed, sig, fails)
            n += 2
            if ok:
                nontriv.append(engine.jhash(sig))
                if sample is None:
                    sample = {"scenario": sig}
    r = {"n": n, "fails": fails, "nontrivial": nontriv, "outcomes": []}
    if sample:
        r["sample"] = sample
    return r
