"""C14 - every cipher-suite code point resolves to what its IANA name denotes.
Exhaustive over all 65 536 two-byte code points."""
from .. import harness
from ..model import iana

PROP = "C14"
LEVEL = "exploration"
JUDGE = True


def describe(tier):
    return {
        "rule": "all 65536 two-byte code points through split_cipher_suite, in 256 batches of 256; a case is non-trivial "
                "if the code point is accepted; distinct = distinct accepted code points; outcomes = distinct parameter tuples",
        "exhaustive": True,
        "bounds": {"code_points": 65536},
        "min_nontrivial": 100,
        "chunksize": 4,
        "assumptions": [
            "registry copies: dpkt.ssl_ciphersuites and scapy _tls_cipher_suites, plus a 10-entry RFC-cited supplement "
            "(RFC 8442, RFC 8492, RFC 6655 section 4) for code points both copies lack or rename",
            "parameters denoted by a name: mc/model/iana.py parse_name (tokenised grammar, independent of TLExport)",
            "OpenSSL's own cipher list (ssl.SSLContext.get_ciphers) is used as a third witness of the name parser",
        ],
    }


def cases(tier, seed):
    for hi in range(256):
        yield {"hi": hi}


_reg = None


def registry():
    global _reg
    if _reg is None:
        a, b = iana.registry_copies()
        _reg = (a, b)
    return _reg


def expected_name(code):
    """(name or None, error or None)"""
    a, b = registry()
    if code in iana.SUPPLEMENT:
        return iana.SUPPLEMENT[code], None
    na, nb = a.get(code), b.get(code)
    if na is not None and nb is not None and na != nb:
        return None, f"registry copies disagree on {code:#06x}: {na} / {nb}"
    return na or nb, None


def _algo_name(cls):
    return getattr(cls, "__name__", str(cls))


EXPECT_ALGO = {
    ("AES", "CBC"): "AES", ("AES", "GCM"): "AESGCM", ("AES", "CCM"): "AESCCM", ("CAMELLIA", "CBC"): "Camellia",
    ("3DES", "CBC"): "TripleDES", ("IDEA", "CBC"): "IDEA", ("RC4", "STREAM"): "ARC4",
    ("CHACHA20", "CHACHA"): "ChaCha20Poly1305",
}
EXPECT_HASH = {"md5": "MD5", "sha1": "SHA1", "sha256": "SHA256", "sha384": "SHA384"}


def run_case(case):
    m = harness.load()
    import tlexport.cipher_suite_parser as csp
    hi = case["hi"]
    fails = []
    nontrivial = []
    outcomes = set()
    sample = None
    for lo in range(256):
        code = (hi << 8) | lo
        sid = bytes([hi, lo])
        try:
            res = csp.split_cipher_suite(sid)
        except Exception as e:
            fails.append({"kind": "resolver_raised", "sig": {"code": f"{code:#06x}", "exc": type(e).__name__}})
            continue
        in_table = sid in csp.cipher_suites
        if res is None:
            if in_table:
                fails.append({"kind": "table_entry_rejected", "sig": {"code": f"{code:#06x}"}})
            continue
        if not in_table:
            fails.append({"kind": "accepted_outside_table", "sig": {"code": f"{code:#06x}"}})
            continue
        name = csp.cipher_suites[sid]
        want, err = expected_name(code)
        if err:
            return {"n": lo, "harness_error": err}
        if want != name:
            fails.append({"kind": "name_not_registered_for_code_point",
                          "sig": {"code": f"{code:#06x}", "table": name, "registry": want}})
            continue
        try:
            p = iana.parse_name(name)
        except ValueError as e:
            fails.append({"kind": "name_not_parseable", "sig": {"code": f"{code:#06x}", "name": name}})
            continue
        got = {
            "algo": _algo_name(res["CryptoAlgo"][0]),
            "algo_aead": int(bool(res["CryptoAlgo"][1])),
            "mode_aead": int(bool(res["Mode"][1])),
            "key_len": res["KeyLength"],
            "hash": _algo_name(res["MAC"]),
            "tag": res["TagLength"],
        }
        exp = {
            "algo": EXPECT_ALGO[(p.cipher, p.mode)],
            "algo_aead": int(p.aead),
            "mode_aead": int(p.aead),
            "key_len": p.key_len,
            "hash": EXPECT_HASH[p.mac if not p.aead else p.prf],
            "tag": p.tag_len if p.aead else 16,
        }
        if not p.aead:
            # tag length is meaningless for non-AEAD suites; the resolver's default 16 is not compared
            got.pop("tag"), exp.pop("tag")
        nontrivial.append(f"{code:#06x}")
        outcomes.add(str(sorted(got.items())))
        diff = {k: (got[k], exp[k]) for k in exp if got[k] != exp[k]}
        if diff:
            fails.append({"kind": "wrong_parameters", "sig": {"code": f"{code:#06x}", "name": name, "diff": str(diff)}})
        if sample is None:
            sample = {"code": f"{code:#06x}", "name": name, "resolved": got}
    r = {"n": 256, "fails": fails, "nontrivial": nontrivial, "outcomes": sorted(outcomes)}
    if sample:
        r["sample"] = sample
    return r


def finish(st, tier, seed):
    """model validation: OpenSSL's cipher list as third witness of the name parser"""
    import ssl
    a, b = registry()
    ctx = ssl.SSLContext(ssl.PROTOCOL_TLS_CLIENT)
    try:
        ctx.set_ciphers("ALL:COMPLEMENTOFALL:@SECLEVEL=0")
    except ssl.SSLError:
        return
    checked = agree = 0
    bad = []
    for c in ctx.get_ciphers():
        code = c["id"] & 0xFFFF
        name, _ = expected_name(code)
        if not name:
            continue
        try:
            p = iana.parse_name(name)
        except ValueError:
            continue
        checked += 1
        sym = (c.get("symmetric") or "")
        ok = (p.key_len * 8 == c["alg_bits"] or (p.cipher == "3DES" and c["alg_bits"] == 168)) and bool(c["aead"]) == p.aead
        if p.cipher == "AES":
            ok = ok and sym.startswith("aes-") and p.mode.lower() in sym
        if not p.aead and c.get("digest"):
            ok = ok and c["digest"].replace("-", "") in (p.mac, p.mac.replace("sha1", "sha"))
        if ok:
            agree += 1
        else:
            bad.append((name, c))
    st.extra["openssl_witness_checked"] = checked
    st.extra["openssl_witness_agree"] = agree
    if bad:
        st.harness_errors.append(({"openssl": str(bad[:3])}, "name parser disagrees with OpenSSL's cipher list"))
