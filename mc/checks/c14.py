"""C14 - every cipher-suite code point resolves to what its IANA name denotes.
Exhaustive over all 65 536 two-byte code points."""
from .. import harness
from ..model import iana

PROP = "C14"
LEVEL = "exploration"
JUDGE = True


def describe(tier):
    return {
        "rule": "all 65536 two-byte code points through split_cipher_suite, in 256 batches of 256, and through the suite selection of "
                "a QUIC session (QuicSession.set_tls_decryptors, which has a table of its own: RFC 9001 allows 0x1301-0x1304 only); a case is non-trivial "
                "if the code point is accepted; distinct = distinct accepted code points; outcomes = distinct parameter tuples",
        "exhaustive": True,
        "bounds": {"code_points": 65536},
        "min_nontrivial": 100,
        "chunksize": 4,
        "assumptions": [
            "registry copies: dpkt.ssl_ciphersuites and scapy _tls_cipher_suites, plus a 10-entry RFC-cited supplement "
            "(RFC 8442, RFC 8492, RFC 6655 section 4) for code points both copies lack or rename",
            "parameters denoted by a name: mc/model/iana.py parse_name (tokenised grammar, independent of TLExport)",
            "OpenSSL's own cipher list (ssl.SSLContext.get_ciphers) is used as a third witness of the name parser",
        ],
    }


def cases(tier, seed):
    for hi in range(256):
        yield {"hi": hi}
    for hi in range(0, 256, 8):
        yield {"quic_hi": hi}


QUIC_TABLE = {0x1301: ("AESGCM", 16, "SHA256"), 0x1302: ("AESGCM", 32, "SHA384"), 0x1303: ("ChaCha20Poly1305", 32, "SHA256"),
              0x1304: ("AESCCM", 16, "SHA256")}        # RFC 9001 5.3: every TLS 1.3 suite except TLS_AES_128_CCM_8_SHA256


def run_quic(case):
    """the suite selection of a QUIC session (its own table) over all code points: accepted <=> one of the four suites
    RFC 9001 allows, with the AEAD / key length / hash the name denotes; everything else must install no decryptor"""
    from . import c16
    fails, nontriv = [], []
    n = 0
    cr = bytes(range(32))
    from tlexport.keylog_reader import Key
    lines = [f"{lab} {cr.hex()} {'ab' * 48}" for lab in ("CLIENT_HANDSHAKE_TRAFFIC_SECRET", "SERVER_HANDSHAKE_TRAFFIC_SECRET",
                                                           "CLIENT_TRAFFIC_SECRET_0", "SERVER_TRAFFIC_SECRET_0")]
    keys = [Key(l) for l in lines]
    from tlexport.quic.quic_decode import QuicVersion
    for hi in range(case["quic_hi"], case["quic_hi"] + 8):
        for lo in range(256):
            code = (hi << 8) | lo
            sess = c16.new_session()
            sess.keylog = keys
            sess.quic_version = QuicVersion.V1
            n += 1
            try:
                sess.set_tls_decryptors(cr, bytes([hi, lo]))
            except Exception as e:
                fails.append({"kind": "quic_suite_selection_raised", "sig": {"code": f"{code:#06x}", "exc": type(e).__name__}})
                continue
            installed = "Handshake" in sess.decryptors or "Application" in sess.decryptors
            if code in QUIC_TABLE:
                want = QUIC_TABLE[code]
                got = (getattr(sess.cipher, "__name__", None), sess.key_length, getattr(sess.hash_fun, "__name__", None))
                if not installed or got != want:
                    fails.append({"kind": "quic_suite_wrong_parameters", "sig": {"code": f"{code:#06x}"}, "detail": f"{got} installed={installed}, want {want}"})
                else:
                    nontriv.append(f"quic{code:#06x}")
            elif installed:
                fails.append({"kind": "quic_accepts_unsupported_suite", "sig": {"code": f"{code:#06x}"},
                              "detail": "decryptors installed for a code point QUIC v1 does not allow"})
    return {"n": n, "fails": fails, "nontrivial": nontriv, "outcomes": []}


_reg = None


def registry():
    global _reg
    if _reg is None:
        a, b = iana.registry_copies()
        _reg = (a, b)
    return _reg


def expected_name(code):
    """(name or None, error or None)"""
    a, b = registry()
    if code in iana.SUPPLEMENT:
        return iana.SUPPLEMENT[code], None
    na, nb = a.get(code), b.get(code)
    if na is not None and nb is not None and na != nb:
        return None, f"registry copies disagree on {code:#06x}: {na} / {nb}"
    return na or nb, None


def _algo_name(cls):
    return getattr(cls, "__name__", str(cls))


EXPECT_ALGO = {
    ("AES", "CBC"): "AES", ("AES", "GCM"): "AESGCM", ("AES", "CCM"): "AESCCM", ("CAMELLIA", "CBC"): "Camellia",
    ("3DES", "CBC"): "TripleDES", ("IDEA", "CBC"): "IDEA", ("RC4", "STREAM"): "ARC4",
    ("CHACHA20", "CHACHA"): "ChaCha20Poly1305",
}
EXPECT_HASH = {"md5": "MD5", "sha1": "SHA1", "sha256": "SHA256", "sha384": "SHA384"}


def run_case(case):
    m = harness.load()
    if "quic_hi" in case:
        return run_quic(case)
    import tlexport.cipher_suite_parser as csp
    hi = case["hi"]
    fails = []
    nontrivial = []
    outcomes = set()
    sample = None
    for lo in range(256):
        code = (hi << 8) | lo
        sid = bytes([hi, lo])
        try:
            res = csp.split_cipher_suite(sid)
        except Exception as e:
            fails.append({"kind": "resolver_raised", "sig": {"code": f"{code:#06x}", "exc": type(e).__name__}})
            continue
        in_table = sid in csp.cipher_suites
        if res is None:
            if in_table:
                fails.append({"kind": "table_entry_rejected", "sig": {"code": f"{code:#06x}"}})
            continue
        if not in_table:
            fails.append({"kind": "accepted_outside_table", "sig": {"code": f"{code:#06x}"}})
            continue
        name = csp.cipher_suites[sid]
        want, err = expected_name(code)
        if err:
            return {"n": lo, "harness_error": err}
        if want != name:
            fails.append({"kind": "name_not_registered_for_code_point",
                          "sig": {"code": f"{code:#06x}", "table": name, "registry": want}})
            continue
        try:
            p = iana.parse_name(name)
        except ValueError as e:
            fails.append({"kind": "name_not_parseable", "sig": {"code": f"{code:#06x}", "name": name}})
            continue
        got = {
            "algo": _algo_name(res["CryptoAlgo"][0]),
            "algo_aead": int(bool(res["CryptoAlgo"][1])),
            "mode_aead": int(bool(res["Mode"][1])),
            "key_len": res["KeyLength"],
            "hash": _algo_name(res["MAC"]),
            "tag": res["TagLength"],
        }
        exp = {
            "algo": EXPECT_ALGO[(p.cipher, p.mode)],
            "algo_aead": int(p.aead),
            "mode_aead": int(p.aead),
            "key_len": p.key_len,
            "hash": EXPECT_HASH[p.mac if not p.aead else p.prf],
            "tag": p.tag_len if p.aead else 16,
        }
        if not p.aead:
            # tag length is meaningless for non-AEAD suites; the resolver's default 16 is not compared
            got.pop("tag"), exp.pop("tag")
        nontrivial.append(f"{code:#06x}")
        outcomes.add(str(sorted(got.items())))
        diff = {k: (got[k], exp[k]) for k in exp if got[k] != exp[k]}
        if diff:
            fails.append({"kind": "wrong_parameters", "sig": {"code": f"{code:#06x}", "name": name, "diff": str(diff)}})
        if sample is None:
            sample = {"code": f"{code:#06x}", "name": name, "resolved": got}
    r = {"n": 256, "fails": fails, "nontrivial": nontrivial, "outcomes": sorted(outcomes)}
    if sample:
        r["sample"] = sample
    return r


def finish(st, tier, seed):
    """model validation: OpenSSL's cipher list as third witness of the name parser"""
    import ssl
    a, b = registry()
    ctx = ssl.SSLContext(ssl.PROTOCOL_TLS_CLIENT)
    try:
        ctx.set_ciphers("ALL:COMPLEMENTOFALL:@SECLEVEL=0")
    except ssl.SSLError:
        return
    checked = agree = 0
    bad = []
    for c in ctx.get_ciphers():
        code = c["id"] & 0xFFFF
        name, _ = expected_name(code)
        if not name:
            continue
        try:
            p = iana.parse_name(name)
        except ValueError:
            continue
        checked += 1
        sym = (c.get("symmetric") or "")
        ok = (p.key_len * 8 == c["alg_bits"] or (p.cipher == "3DES" and c["alg_bits"] == 168)) and bool(c["aead"]) == p.aead
        if p.cipher == "AES":
            ok = ok and sym.startswith("aes-") and p.mode.lower() in sym
        if not p.aead and c.get("digest"):
            ok = ok and c["digest"].replace("-", "") in (p.mac, p.mac.replace("sha1", "sha"))
        if ok:
            agree += 1
        else:
            bad.append((name, c))
    st.extra["openssl_witness_checked"] = checked
    st.extra["openssl_witness_agree"] = agree
    if bad:
        st.harness_errors.append(({"openssl": str(bad[:3])}, "name parser disagrees with OpenSSL's cipher list"))
