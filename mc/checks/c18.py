"""C18 - the export is a deterministic function of capture, secrets and options.

 layer H  fresh-process CLI runs: for each scenario one run per ITERATION ORDER of its connection-ID set that
          any PYTHONHASHSEED in 0..S-1 realises (witness seeds found by a helper subprocess), x working
          directories x environments.  Oracle: sha256 of the output file equal across all runs.
 layer R  in-process repetition without any state restoration by the harness: run(A);run(A) and run(A);run(B)
          for every ordered pair of corpus entries; the second output must equal a fresh run's.
"""
import os
import sys
import json
import hashlib
import tempfile
import subprocess
import itertools
from .. import harness, scen, engine
from ..model import cap, tls

PROP = "C18"
LEVEL = "exploration"

CORPUS = ["quic_default", "quic_zero_ccid", "quic_prefix_cids", "quic_ncid", "quic_two", "tls12", "tls12_b", "tls13_v6", "tls13_b", "mixed",
          "quic_dup_initial", "quic_vn", "tls12_retransmissions", "tls12_cbc_damaged", "tls_nine", "quic_alpn_bytes", "bad_checksums", "quic_zero_rtt",
          "aborts_cut_file", "aborts_no_capture"]
# quic_alpn_bytes: the ClientHello offers one application protocol whose name is not ASCII (a GREASE value, RFC 8701);
# aborts_*: inputs on which the run ends with an error (file cut inside a block / not a capture at all) - they only serve as
# the FIRST run of a pair: whatever such a run leaves behind must not reach the next one
ABORTING = {"aborts_cut_file", "aborts_no_capture"}
# tls12_cbc_damaged: one bit of the last cipher block of a CBC record is flipped (padding and MAC no longer verify);
# tls_nine: nine short TLS connections of different sizes in one capture
# quic_dup_initial: the client's first Initial datagram was captured twice (its CRYPTO frame is seen again after it was consumed);
# quic_vn: a Version Negotiation datagram from the server's address follows the client's first Initial;
# tls12_retransmissions: every third data segment is captured twice


def describe(tier):
    S = 128 if tier == "quick" else 2048
    return {
        "rule": f"H: {len(CORPUS)} scenarios (incl. a duplicated Initial, a Version Negotiation datagram, TCP retransmissions) x (every iteration order of the scenario's connection-ID set realised by a hash seed in 0..{S - 1}, "
                "one witness seed each) x cwd in {/, temp, /repo} x 10 environments (incl. PYTHONOPTIMIZE, non-UTF-8 stdout encodings, SyntaxWarning as error) x 8 further hash seeds, through `python -m tlexport.main` in fresh "
                "processes, plus two runs with -a; R: all ordered pairs (A,B) of corpus entries, without and with -a, run back to back in one interpreter without state "
                "restoration, and pairs whose two runs use different options (-m, -c, -a, -p, -g). non-trivial: a run whose output holds data and equals the reference hash; distinct = distinct "
                "(scenario, seed/cwd/env) or pair",
        "exhaustive": True,
        "bounds": {"hash_seeds_scanned": S, "corpus": CORPUS},
        "min_nontrivial": 60,
        "assumptions": [
            "the only hash-seed dependent seam is the iteration order of sets of connection IDs; orders are enumerated via witness "
            "seeds (CPython gives hash(b'') = 0 under every seed, so a zero-length ID always iterates first: such orders cannot "
            "occur and are not explored)",
            "environment variations: minimal env, LANG=C, LANG=C.UTF-8, TZ=Asia/Tokyo, HOME unset + PYTHONUTF8=1, PYTHONOPTIMIZE=1, PYTHONOPTIMIZE=2 + PYTHONDEVMODE=1",
        ],
    }


def scenario(name, seed, legacy=False):
    """legacy: the capture as a legacy pcap file (for -l) instead of pcapng"""
    flows = []
    if name == "quic_default":
        flows.append(scen.quic_flow({}, seed, 0))
    elif name == "quic_zero_ccid":
        flows.append(scen.quic_flow({"ccid_len": 0, "scid_len": 4}, seed, 0))
    elif name == "quic_prefix_cids":
        b = scen.rng_for(seed, "c18").randbytes(8)
        flows.append(scen.quic_flow({"scid_bytes": b[:4], "ccid_bytes": b[:4] + b"\x01\x02", "odcid_bytes": b[:4] + b"\x01\x02\x03\x04"}, seed, 0))
    elif name == "quic_ncid":
        flows.append(scen.quic_flow({"ncid": {"s_len": 8, "c_len": 8, "after": 1}}, seed, 0))
    elif name == "quic_two":
        flows.append(scen.quic_flow({"ccid_len": 0}, seed, 0))
        flows.append(scen.quic_flow({"suite": 0x1303, "ccid_len": 1, "scid_len": 1}, seed, 1))
    elif name in ("quic_dup_initial", "quic_vn"):
        f = scen.quic_flow({"suite": 0x1302}, seed, 0, key=(name,))
        if name == "quic_dup_initial":
            f.pkts.insert(1, f.pkts[0].copy())
        else:
            c = f.conn
            vn = bytes([0xCA]) + bytes(4) + bytes([len(c.ccid)]) + c.ccid + bytes([len(c.odcid)]) + c.odcid + \
                bytes.fromhex("00000001") + bytes.fromhex("6b3343cf") + bytes.fromhex("1a2a3a4a")
            f.pkts.insert(1, cap.Pkt(0, "s", "udp", vn))
        flows.append(f)
    elif name == "quic_zero_rtt":
        # early data: the client offers four suites (what protects the 0-RTT packets is decided from the ClientHello alone)
        flows.append(scen.quic_flow({"suite": 0x1301, "zero_rtt": True, "offered": [0x1301, 0x1302, 0x1303, 0x1304]}, seed, 0, key=("0rtt",)))
    elif name == "quic_alpn_bytes":
        flows.append(scen.quic_flow({"suite": 0x1301, "alpn": (b"\x8a\x8a",)}, seed, 0, key=("alpn",)))
    elif name in ABORTING:
        data, kl, cids = scenario("mixed", seed)
        if name == "aborts_cut_file":
            return data[:len(data) * 2 // 3 + 1], kl, []
        return b"this is not a capture file\n" * 4, kl, []
    elif name == "bad_checksums":
        # a TLS and a QUIC connection; a damaged copy (payload byte changed, checksum left as it was) of a data segment / datagram
        # precedes the intact one: what is exported depends on whether -c is in force
        ft = scen.tls_flow({"version": tls.TLS12, "suite": 0xC02F, "history": [("c", 100), ("s", 300), ("c", 20)]}, seed, 0, key=("badsum",))
        fq = scen.quic_flow({"suite": 0x1301}, seed, 1, key=("badsum",))
        for f in (ft, fq):
            idx = [i for i, p in enumerate(f.pkts) if p.payload]
            i = idx[len(idx) // 2]
            good = f.pkts[i]
            bad = good.copy()
            bad.bad_sum = _tsum(good, f.ends)
            bad.payload = good.payload[:-1] + bytes([good.payload[-1] ^ 0x20])
            f.pkts.insert(i, bad)
        flows += [ft, fq]
    elif name == "tls12_cbc_damaged":
        f = scen.tls_flow({"version": tls.TLS12, "suite": 0x003D, "history": [("c", 100), ("s", 620), ("c", 50), ("s", 40)]}, seed, 0, key=("dmg",))
        big = max((p for p in f.pkts if p.dir == "s" and p.payload), key=lambda p: len(p.payload))
        big.payload = big.payload[:-3] + bytes([big.payload[-3] ^ 0x10]) + big.payload[-2:]
        flows.append(f)
    elif name == "tls_nine":
        for i in range(9):
            v, code = [(tls.TLS12, 0xC02F), (tls.TLS13, 0x1301), (tls.TLS10, 0x002F)][i % 3]
            flows.append(scen.tls_flow({"version": v, "suite": code, "history": [("c", 20 + i), ("s", 3000 * (9 - i) if i % 2 else 10 + i)]}, seed, i,
                                       key=("nine",)))
    elif name == "tls12_retransmissions":
        f = scen.tls_flow({"version": tls.TLS12, "suite": 0x009C, "history": [("c", 200), ("s", 900), ("c", 50)]}, seed, 0, mss=300, key=("rt",))
        idx = [i for i, p in enumerate(f.pkts) if p.payload]
        for i in idx[::3][::-1]:
            f.pkts.insert(min(len(f.pkts), i + 2), f.pkts[i].copy())
        flows.append(f)
    elif name == "tls12":
        flows.append(scen.tls_flow({"version": tls.TLS12, "suite": 0xC02F}, seed, 0))
    elif name == "tls12_b":
        # same shape and key-log length as tls12, different connection and secrets
        flows.append(scen.tls_flow({"version": tls.TLS12, "suite": 0x003C, "etm": True}, seed, 0, key=("b",)))
    elif name == "tls13_b":
        flows.append(scen.tls_flow({"version": tls.TLS13, "suite": 0x1301}, seed, 0, key=("b",)))
    elif name == "tls13_v6":
        flows.append(scen.tls_flow({"version": tls.TLS13, "suite": 0x1303}, seed, 0, v6=True))
    else:
        flows.append(scen.tls_flow({"version": tls.TLS10, "suite": 0x0005}, seed, 0))
        flows.append(scen.quic_flow({"suite": 0x1302, "scid_len": 0}, seed, 1, v6=True))
        flows.append(scen.tls_flow({"version": tls.TLS13, "suite": 0x1301}, seed, 2))
    ends = {f.id: f.ends for f in flows}
    pkts = cap.stamp(scen.round_robin([f.pkts for f in flows]), ends)
    lines = []
    cids = []
    for f in flows:
        lines += f.keylog()
        if f.kind == "quic":
            c = f.conn
            cids.append(sorted({c.odcid, c.ccid, c.scid}))
    if legacy:
        from ..model import pcapio
        return pcapio.write_pcap(cap.to_items(pkts)), "\n".join(lines) + "\n", cids
    return cap.pcapng(pkts), "\n".join(lines) + "\n", cids


def _tsum(p, ends):
    """the (correct) transport checksum of a packet as rendered for these endpoints"""
    import struct
    from ..model import net
    fr = cap.render(p.copy(), {p.conn: ends}).frame
    v6 = fr[12:14] == b"\x86\xdd"
    off = 14 + (40 if v6 else 20) + (16 if p.proto == "tcp" else 6)
    return struct.unpack("!H", fr[off:off + 2])[0]


def witness_seeds(cidsets, S):
    """{order tuple: first seed realising it} for the union of iteration orders of each CID set"""
    prog = ("import sys,json;sets=json.loads(sys.argv[1]);"
            "print(json.dumps([[x.hex() for x in set(bytes.fromhex(h) for h in s)] for s in sets]))")
    arg = json.dumps([[c.hex() for c in s] for s in cidsets])
    orders = {}
    procs = []
    for s in range(S):
        env = {"PYTHONHASHSEED": str(s), "PATH": "/usr/bin:/bin"}
        procs.append((s, subprocess.Popen([harness.PY, "-c", prog, arg], env=env, stdout=subprocess.PIPE)))
        if len(procs) >= 32:
            for ss, p in procs:
                out = p.communicate()[0].decode().strip()
                orders.setdefault(out, ss)
            procs = []
    for ss, p in procs:
        out = p.communicate()[0].decode().strip()
        orders.setdefault(out, ss)
    return orders


ENVS = [{}, {"LANG": "C"}, {"LANG": "C.UTF-8", "LC_ALL": "C.UTF-8"}, {"TZ": "Asia/Tokyo"}, {"PYTHONUTF8": "1", "HOME": None},
        {"PYTHONOPTIMIZE": "1"}, {"PYTHONOPTIMIZE": "2", "PYTHONDEVMODE": "1"}, {"PYTHONIOENCODING": "ascii"},
        {"PYTHONIOENCODING": "latin-1", "LC_ALL": "C", "PYTHONCOERCECLOCALE": "0", "PYTHONUTF8": "0"},
        {"PYTHONWARNINGS": "error::SyntaxWarning"}]
# the two -a runs of every scenario use different stdout encodings as well
ENV_A = [{}, {"PYTHONIOENCODING": "ascii"}]


def cases(tier, seed):
    for name in CORPUS:
        if name in ABORTING:
            continue
        yield {"layer": "H", "scenario": name, "seed": seed, "S": 128 if tier == "quick" else 2048}
    for a in CORPUS:
        yield {"layer": "R", "first": a, "seed": seed}


def run_case(case):
    harness.load()
    seed = case["seed"]
    fails, nontriv = [], []
    n = 0
    sample = None
    if case["layer"] == "H":
        name = case["scenario"]
        data, kl, cids = scenario(name, seed)
        ref = harness.run_cli(data, kl, hashseed="0")
        n += 1
        if not ref.ok or ref.out is None:
            return {"n": 1, "fails": [{"kind": "cli_run_failed", "sig": {"scenario": name}, "detail": ref.status + ref.detail[-300:]}]}
        refh = hashlib.sha256(ref.out).hexdigest()
        orders = witness_seeds(cids, case["S"]) if cids else {"-": 0}
        tmpd = tempfile.mkdtemp(prefix="c18cwd-", dir=os.path.dirname(harness.scratch_dir()))
        runs = []
        for order, hs in orders.items():
            runs.append(({"hashseed": hs, "order": order[:80]}, dict(hashseed=str(hs))))
        # a fixed sweep of further hash seeds (any set or dict of bytes the program iterates is ordered by them)
        for hs in (1, 2, 3, 5, 7, 11, 13, 17):
            runs.append(({"hashseed_sweep": hs}, dict(hashseed=str(hs))))
        for cwd in ("/", tmpd, harness.SRC):
            runs.append(({"cwd": "tmp" if cwd == tmpd else cwd}, dict(cwd=cwd, hashseed=str(101 + len(runs)))))
        for e in ENVS:
            runs.append(({"env": {k: str(v) for k, v in e.items()}}, dict(env=e, hashseed="7")))
        # the output path already holds a (longer) file from some earlier run
        runs.append(({"stale_output_file": "200 kB of 0xaa"}, dict(hashseed="9", stale_output=b"\xaa" * 200000)))
        runs.append(({"stale_output_file": "own output followed by 64 bytes"}, dict(hashseed="9", stale_output=ref.out + b"\x55" * 64)))
        try:
            for sig, kw in runs:
                res = harness.run_cli(data, kl, **kw)
                n += 1
                s = dict(sig, scenario=name)
                if not res.ok or res.out is None:
                    fails.append({"kind": "cli_run_failed", "sig": s, "detail": res.status + res.detail[-300:]})
                elif hashlib.sha256(res.out).hexdigest() != refh:
                    fails.append({"kind": "output_differs_between_runs", "sig": s,
                                  "detail": f"sha256 differs from the reference run (PYTHONHASHSEED=0, cwd=temp): {len(res.out)} vs {len(ref.out)} bytes"})
                else:
                    nontriv.append(engine.jhash(s))
        finally:
            try:
                os.rmdir(tmpd)
            except OSError:
                pass
        # the same with metadata export: two fresh processes (different hash seeds, the second started later) must agree
        ra = harness.run_cli(data, kl, args=["-a"], hashseed="0", env=ENV_A[0])
        rb = harness.run_cli(data, kl, args=["-a"], hashseed="3", cwd="/", env=ENV_A[1])
        n += 2
        sa = {"scenario": name, "args": "-a"}
        if not ra.ok or not rb.ok or ra.out is None or rb.out is None:
            fails.append({"kind": "cli_run_failed", "sig": sa, "detail": (ra.status + ra.detail[-200:]) if not ra.ok else (rb.status + rb.detail[-200:])})
        elif ra.out != rb.out:
            fails.append({"kind": "output_differs_between_runs", "sig": sa, "detail": f"two runs with -a wrote different files ({len(ra.out)} / {len(rb.out)} bytes)"})
        else:
            nontriv.append(engine.jhash(sa))
        # in-process run must equal the CLI run (driver equivalence)
        inp = harness.run_tlexport(data, kl)
        n += 1
        if not inp.ok or inp.out != ref.out:
            fails.append({"kind": "inprocess_differs_from_cli", "sig": {"scenario": name}, "detail": inp.status})
        sample = {"scenario": name, "cid_set_orders_realised": len(orders), "runs": len(runs), "sha256": refh[:16]}
        r = {"n": n, "fails": fails, "nontrivial": nontriv, "outcomes": [refh[:12]], "count": {"cid_orders_realised": len(orders)}}
    else:
        a = case["first"]
        da, ka, _ = scenario(a, seed)
        for b, args in [(b, args) for b in CORPUS for args in ((), ("-a",)) if b not in ABORTING]:
            db, kb, _ = scenario(b, seed)
            fresh = harness.run_tlexport(db, kb, args)                 # reference: state restored by the harness
            harness.reset_state()
            r1 = harness.run_tlexport(da, ka, args, reset=False)
            r2 = harness.run_tlexport(db, kb, args, reset=False, keep_output=True)   # no restoration between the two runs: module state,
            #                                                                   class state and the first run's output file stay
            harness.reset_state()
            n += 3
            sig = {"first": a, "second": b, "args": " ".join(args)}
            if not r2.ok:
                fails.append({"kind": "second_run_failed", "sig": sig, "detail": r2.status + r2.detail[-300:]})
            elif r2.out != fresh.out:
                fails.append({"kind": "second_run_differs_from_fresh_run", "sig": sig,
                              "detail": f"run({a}); run({b}) wrote {len(r2.out or b'')} bytes, a fresh run({b}) writes {len(fresh.out or b'')}"})
            else:
                nontriv.append(engine.jhash(sig))
        # the two runs of a pair use DIFFERENT options: nothing an option switched on or collected may survive into the next run
        if a not in ABORTING:
            for b in ("mixed", "quic_two", "bad_checksums"):
                db, kb, _ = scenario(b, seed)
                dl, _kl, _ = scenario(b, seed, legacy=True)
                for xa, xb in ((("-m", "443:9000"), ("-m",)), ((), ("-c",)), (("-c",), ()), (("-a",), ()), (("-p", "8443", "-m", "8443:1"), ()),
                               (("-g",), ("-m", "44330:7")), (("-d", "DEBUG"), ("-l",)), (("-d", "DEBUG", "-a"), ())):
                    # the reference comes from a FRESH PROCESS: an in-process reference would share whatever the interpreter
                    # has memoised since its first run
                    d2, inf = (dl, "in.pcap") if "-l" in xb else (db, "in.pcapng")
                    fresh = harness.run_cli(d2, kb, args=list(xb), infile=inf)
                    harness.reset_state()
                    harness.run_tlexport(da, ka, xa, reset=False)
                    r2 = harness.run_tlexport(d2, kb, xb, reset=False, keep_output=True, infile=inf)
                    harness.reset_state()
                    n += 3
                    sig = {"first": a, "second": b, "args_first": " ".join(xa), "args_second": " ".join(xb)}
                    if not r2.ok:
                        fails.append({"kind": "second_run_failed", "sig": sig, "detail": r2.status + r2.detail[-300:]})
                    elif r2.out != fresh.out:
                        fails.append({"kind": "second_run_differs_from_fresh_run", "sig": sig,
                                      "detail": f"run({a} {' '.join(xa)}); run({b} {' '.join(xb)}) wrote {len(r2.out or b'')} bytes, a fresh run writes {len(fresh.out or b'')}"})
                    else:
                        nontriv.append(engine.jhash(sig))
        sample = {"pairs_with_first": a, "seconds": CORPUS}
        r = {"n": n, "fails": fails, "nontrivial": nontriv, "outcomes": []}
    if sample:
        r["sample"] = sample
    return r
