"""C17 - QUIC frames are parsed exactly; arbitrary bytes cannot hang the parser.

 layer A (sequences): every sequence of well-formed frames up to a depth over an instance
                      alphabet (all RFC 9000 / 9221 frame types, every varint width incl.
                      non-minimal, all STREAM flag combinations) vs. the encoder's ground truth.
 layer B (inputs):    every byte string up to a length bound over a symbol alphabet; the parser
                      must return or raise within a step bound and never report data that is
                      not in the packet.
"""
import sys
import signal
import itertools
from .. import harness
from ..model import quicframes

PROP = "C17"
LEVEL = "model_checking"

SYMS40 = sorted(set([0x00, 0x01, 0x02, 0x03, 0x04, 0x05, 0x06, 0x07, 0x08, 0x0a, 0x0b, 0x0c, 0x0e, 0x0f, 0x10, 0x11,
                     0x12, 0x14, 0x15, 0x16, 0x18, 0x19, 0x1a, 0x1c, 0x1d, 0x1e, 0x1f, 0x20, 0x30, 0x31, 0x3f, 0x40,
                     0x41, 0x7f, 0x80, 0xbf, 0xc0, 0xc1, 0xfe, 0xff]))


def describe(tier):
    d2 = "2" if tier == "quick" else "3 (full alphabet to depth 2, reduced alphabet to depth 3 in quick)"
    return {
        "rule": "layer T: every truncation of every frame instance, incl. frames whose range-count / length fields hold the "
                "maximum of each varint width; layer A (alphabet incl. per-field mixed varint widths, ACK frames with 64..1000 ranges, 1/8/20-byte connection IDs, reason phrases that are not UTF-8): all sequences of well-formed frames (LEN-less STREAM/DATAGRAM only last) over the instance "
                "alphabet, full alphabet to depth 2 and a reduced one-width alphabet to depth 3 (thorough: full "
                "alphabet to depth 2, medium alphabet to depth 3); layer B: all byte strings of "
                "length <= 4 over 40 symbols" + ("" if tier == "quick" else ", of length 5 over the same 40 symbols and of length <= 3 over all 256 byte values") +
                ". non-trivial: a sequence of >= 2 frames / a byte string on which the parser returns frames; "
                "distinct = distinct sequences / strings. states = nodes of the sequence tree, transitions = edges",
        "exhaustive": True,
        "bounds": {"layer_a_depth": d2, "layer_b": "len<=4 over 40 symbols" + ("" if tier == "quick" else ", len<=3 over 256")},
        "min_nontrivial": 1000,
        "chunksize": 2,
        "assumptions": [
            "ground truth: the encoder in mc/model/quicframes.py (RFC 9000 section 19, RFC 9221)",
            "runs of PADDING bytes are compared as one run (TLExport reports one frame per run; the bytes are accounted once)",
            "compared fields are those the property names: type, length, stream id/offset/fin/data, crypto offset/data, "
            "connection id",
            "hang detection: 1 s interval timer per call, confirmed deterministically by a 200 000-line trace budget",
        ],
    }


def _alpha(kind):
    if kind == "full":
        return quicframes.alphabet(True)
    if kind == "reduced":
        return quicframes.alphabet(False)
    # medium: widths 1 and 8 of the full alphabet, plus the fixed-size frames
    return [x for x in quicframes.alphabet(True) if "/w2" not in x[0] and "/w4" not in x[0]]


def lying_frames():
    """frames whose count / length fields promise more than the packet holds (every varint width at its maximum), for
    the truncation layer"""
    from ..model.rfc9000 import varint
    out = []
    maxes = [(1, 63), (2, 16383), (4, (1 << 30) - 1), (8, (1 << 62) - 1)]
    for w, mx in maxes:
        v = varint(mx, w)
        one = varint(1, 1)
        out.append((f"ACK/range_count=max/w{w}", b"\x02" + one + one + v + one + one + one))
        out.append((f"ACK_ECN/range_count=max/w{w}", b"\x03" + one + one + v + one))
        out.append((f"CRYPTO/len=max/w{w}", b"\x06" + one + v + b"abc"))
        out.append((f"NEW_TOKEN/len=max/w{w}", b"\x07" + v + b"abc"))
        out.append((f"STREAM/len=max/w{w}", b"\x0a" + one + v + b"abc"))
        out.append((f"STREAM/off=max,len=max/w{w}", b"\x0e" + one + v + v + b"abc"))
        out.append((f"CONNECTION_CLOSE/reason=max/w{w}", b"\x1c" + one + one + v + b"abc"))
        out.append((f"DATAGRAM/len=max/w{w}", b"\x31" + v + b"abc"))
        out.append((f"GENERIC/len=max/w{w}", b"\x21" + v + b"abc"))
    out.append(("NEW_CONNECTION_ID/cidlen=255", b"\x18" + b"\x01\x00" + b"\xff" + b"C" * 30))
    return out


def cases(tier, seed):
    n_t = len(quicframes.alphabet(True)) + len(lying_frames())
    for i in range(0, n_t, 16):
        yield {"layer": "T", "lo": i, "hi": min(n_t, i + 16)}
    # layer A: one case per first frame
    plan = [("full", 2), ("reduced", 3)] if tier == "quick" else [("full", 2), ("medium", 3)]
    for kind, depth in plan:
        n = len(_alpha(kind))
        for i in range(n):
            yield {"layer": "A", "alpha": kind, "depth": depth, "first": i}
    # layer B
    for a in range(len(SYMS40)):
        yield {"layer": "B", "alpha": 40, "maxlen": 4, "first": a}
    if tier == "thorough":
        for a in range(256):
            yield {"layer": "B", "alpha": 256, "maxlen": 3, "first": a}
        for a in range(len(SYMS40)):
            for b in range(len(SYMS40)):
                yield {"layer": "B", "alpha": 40, "maxlen": 5, "first": a, "second": b}


class Hang(Exception):
    pass


def _alarm(signum, frame):
    raise Hang()


def guarded_parse(parse, data, pkt):
    """returns ('ok', frames) | ('raise', exc) | ('hang', None)"""
    signal.setitimer(signal.ITIMER_REAL, 1.0)
    try:
        fr = parse(data, pkt)
        signal.setitimer(signal.ITIMER_REAL, 0)
        return "ok", fr
    except Hang:
        signal.setitimer(signal.ITIMER_REAL, 0)
    except Exception as e:
        signal.setitimer(signal.ITIMER_REAL, 0)
        return "raise", e
    # confirm deterministically: budget of traced line events
    budget = [200000]

    def tracer(frame, event, arg):
        if event == "line":
            budget[0] -= 1
            if budget[0] <= 0:
                raise Hang()
        return tracer
    sys.settrace(tracer)
    try:
        fr = parse(data, pkt)
        return "ok", fr
    except Hang:
        return "hang", None
    except Exception as e:
        return "raise", e
    finally:
        sys.settrace(None)


def _pkt():
    from tlexport.quic.quic_packet import ShortQuicPacket, QuicPacketType
    return ShortQuicPacket(packet_type=QuicPacketType.RTT_1, key_phase=0, dcid=b"", packet_num=b"\x00", payload=b"",
                           isserver=False, first_byte=b"\x40", ts=0.0)


def normalise_truth(seq):
    """merge consecutive padding frames"""
    out = []
    for t in seq:
        if t["cls"] == "PaddingFrame" and out and out[-1]["cls"] == "PaddingFrame":
            out[-1] = dict(out[-1], len=out[-1]["len"] + t["len"])
        else:
            out.append(dict(t))
    return out


def compare(frames, truth, total):
    """None if equal else description"""
    got = []
    for f in frames:
        g = {"cls": type(f).__name__, "len": f.length, "type": f.frame_type}
        got.append((g, f))
    # merge consecutive padding on the observed side too
    merged = []
    for g, f in got:
        if g["cls"] == "PaddingFrame" and merged and merged[-1][0]["cls"] == "PaddingFrame":
            merged[-1][0]["len"] += g["len"]
        else:
            merged.append((g, f))
    if len(merged) != len(truth):
        return f"{len(merged)} frames parsed, {len(truth)} sent: {[g['cls'] for g, _ in merged]}"
    pos = 0
    for (g, f), t in zip(merged, truth):
        for k in ("cls", "len", "type"):
            if g[k] != t[k]:
                return f"frame at byte {pos}: {k} {g[k]!r} != {t[k]!r} ({t['cls']})"
        for k in ("stream_id", "offset", "fin", "stream_data", "crypto", "connection_id"):
            if k in t:
                v = getattr(f, k, None)
                if isinstance(v, (bytearray, memoryview)):
                    v = bytes(v)
                if v != t[k]:
                    return f"frame at byte {pos} ({t['cls']}): {k} {v!r} != {t[k]!r}"
        pos += t["len"]
    if pos != total:
        return f"lengths sum to {pos}, payload has {total}"
    return None


def run_case(case):
    harness.load()
    from tlexport.quic.quic_frame import parse_frames
    signal.signal(signal.SIGALRM, _alarm)
    pkt = _pkt()
    if case["layer"] == "A":
        return run_a(case, parse_frames, pkt)
    if case["layer"] == "T":
        return run_t(case, parse_frames, pkt)
    return run_b(case, parse_frames, pkt)


def run_t(case, parse_frames, pkt):
    """every prefix (truncation) of every frame instance - well-formed ones and ones whose count/length fields promise
    more than the packet holds - alone and after a PING, optionally followed by ff bytes"""
    inst = [(l, b) for l, b, _ in quicframes.alphabet(True)] + lying_frames()
    fails = []
    n = parsed = 0
    outcomes = set()
    sample = None
    for label, b in inst[case["lo"]:case["hi"]]:
        for cut in range(1, len(b) + 1):
            for prefix in (b"", b"\x01"):
                for suffix in (b"", b"\xff" * 9):
                    if suffix and cut != len(b):
                        continue
                    data = prefix + b[:cut] + suffix
                    st, res = guarded_parse(parse_frames, data, pkt)
                    n += 1
                    sig = {"layer": "T", "frame": label, "cut": cut, "prefix": prefix.hex(), "suffix": bool(suffix)}
                    if st == "hang":
                        fails.append({"kind": "parser_hang", "sig": {"layer": "T", "frame": label}, "sub": {"bytes": data.hex()},
                                      "detail": f"no termination within the step bound on {data.hex()}"})
                        continue
                    if st == "raise":
                        outcomes.add(type(res).__name__)
                        continue
                    parsed += 1
                    if len(res) > len(data):
                        fails.append({"kind": "more_frames_than_bytes", "sig": sig, "detail": data.hex()})
                    for f in res:
                        for a in DATA_ATTRS:
                            v = getattr(f, a, None)
                            if isinstance(v, (bytes, bytearray)) and bytes(v) not in data:
                                fails.append({"kind": "invented_data", "sig": sig, "detail": f"{type(f).__name__}.{a} = {bytes(v).hex()}"})
                        if isinstance(getattr(f, "ack_ranges", None), list) and len(f.ack_ranges) > len(data):
                            fails.append({"kind": "invented_data", "sig": {"layer": "T", "frame": label},
                                          "detail": f"{len(f.ack_ranges)} ACK ranges reported from {len(data)} bytes"})
                    if sample is None and cut < len(b):
                        sample = {"frame": label, "truncated_to": cut, "bytes": data.hex(), "parsed": [type(f).__name__ for f in res]}
    uniq = {}
    for f in fails:
        uniq.setdefault(str((f["kind"], f["sig"])), f)
    r = {"n": n, "fails": list(uniq.values())[:40], "nontrivial_n": parsed, "outcomes": sorted(outcomes),
         "count": {"states": n, "transitions": n, "layer_t_inputs": n}}
    if sample:
        r["sample"] = sample
    return r


def run_a(case, parse_frames, pkt):
    alpha = _alpha(case["alpha"])
    depth = case["depth"]
    first = alpha[case["first"]]
    fails, nontriv = [], 0
    n = nodes = 0
    outcomes = set()
    sample = None
    middles = [x for x in alpha if not x[2].get("last_only")]

    def check(seq):
        nonlocal n, nontriv, sample
        data = b"".join(b for _, b, _ in seq)
        truth = normalise_truth([t for _, _, t in seq])
        st, res = guarded_parse(parse_frames, data, pkt)
        n += 1
        labels = [l for l, _, _ in seq]
        if st == "hang":
            fails.append({"kind": "parser_hang", "sig": {"frames": labels}})
            return
        if st == "raise":
            fails.append({"kind": "wellformed_rejected", "sig": {"frames": labels, "exc": type(res).__name__}})
            return
        d = compare(res, truth, len(data))
        if d:
            if len(fails) < 40:
                fails.append({"kind": "frames_misparsed", "sig": {"frames": labels}, "detail": d + " payload=" + data.hex()})
        if len(seq) >= 2:
            nontriv += 1
        outcomes.add(tuple(t["cls"] for t in truth))
        if sample is None and len(seq) == depth:
            sample = {"frames": labels, "payload": data.hex(), "parsed": [type(f).__name__ + ":" + str(f.length) for f in res]}

    def rec(prefix):
        nonlocal nodes
        nodes += 1
        check(prefix)
        if len(prefix) >= depth or prefix[-1][2].get("last_only"):
            return
        for x in alpha:
            rec(prefix + [x])

    rec([first])
    r = {"n": n, "fails": fails, "nontrivial_n": nontriv,
         "outcomes": ["/".join(o) for o in list(outcomes)[:3000]],
         "count": {"states": nodes, "transitions": nodes, "traces_validated_against_impl": n, "layer_a_sequences": n}}
    if sample:
        r["sample"] = sample
    return r


DATA_ATTRS = ("stream_data", "crypto", "connection_id", "token", "data", "payload", "reason_phrase", "stateless_reset_token")


def run_b(case, parse_frames, pkt):
    syms = SYMS40 if case["alpha"] == 40 else list(range(256))
    first = syms[case["first"]]
    fails = []
    n = parsed = 0
    outcomes = set()
    sample = None
    second = case.get("second")
    for ln in range(1 if second is None else 5, case["maxlen"] + 1):
        for rest in itertools.product(syms, repeat=ln - 1 if second is None else ln - 2):
            data = bytes((first,) + rest) if second is None else bytes((first, syms[second]) + rest)
            st, res = guarded_parse(parse_frames, data, pkt)
            n += 1
            if st == "hang":
                fails.append({"kind": "parser_hang", "sig": {"bytes": data.hex()}})
                if sum(1 for f in fails if f["kind"] == "parser_hang") >= 5:
                    # every further hang costs a second: five (the shortest strings first) describe the finding, the rest
                    # of this case is not executed
                    return {"n": n, "fails": fails, "nontrivial_n": parsed, "outcomes": [str(o) for o in outcomes],
                            "count": {"bytes_layer_stopped_after_hangs": 1}}
                continue
            if st == "raise":
                outcomes.add(type(res).__name__)
                continue
            parsed += 1
            if len(res) > len(data):
                fails.append({"kind": "more_frames_than_bytes", "sig": {"bytes": data.hex()}})
            for f in res:
                if not isinstance(f.length, int) or f.length <= 0:
                    fails.append({"kind": "non_positive_frame_length", "sig": {"bytes": data.hex()}})
                for a in DATA_ATTRS:
                    v = getattr(f, a, None)
                    if isinstance(v, (bytes, bytearray)) and bytes(v) not in data:
                        fails.append({"kind": "invented_data", "sig": {"bytes": data.hex(), "field": a},
                                      "detail": f"{type(f).__name__}.{a} = {bytes(v).hex()}"})
            outcomes.add(tuple(type(f).__name__ for f in res)[:3])
            if sample is None and ln == case["maxlen"] and len(res) > 1:
                sample = {"bytes": data.hex(), "parsed": [type(f).__name__ + ":" + str(f.length) for f in res]}
            if len(fails) > 40:
                break
    r = {"n": n, "fails": fails[:40],
         "nontrivial_n": parsed,
         "outcomes": [str(o) for o in list(outcomes)[:2000]],
         "count": {"states": n, "transitions": n, "layer_b_inputs": n, "layer_b_parsed": parsed}}
    if sample:
        r["sample"] = sample
    return r
