"""C07 - exported packets keep the endpoints, direction and capture time of their origin.

 layer T  TLS: per class x {IPv4, IPv6} x segmentations; every payload-carrying output packet must carry the MACs,
          IPs, client port of its connection oriented sender->receiver and a timestamp of an input packet that
          overlaps the TLS record it belongs to (the model knows every record's byte range); the synthetic TCP
          handshake carries a timestamp of a packet of the first exported record.
 layer Q  QUIC: default + every 1-deviation scenario; every output datagram carries the timestamp of the input
          datagram that held its stream data, and the right addresses.
 layer M  all 10^6 microsecond values of one second (x 6 second values) through the real timestamp path
          dpkt_dsb.Reader -> float -> dpkt.pcapng.Writer, read back by our reader - exhaustive for that domain.
"""
import io
import struct
from fractions import Fraction
from .. import harness, scen, engine
from ..model import cap, tls, net, pcapio
from . import c01, c02

PROP = "C07"
LEVEL = "exploration"
SECONDS = [0, 1, (1 << 31) - 1, 1 << 31, (1 << 32) - 1, 1700000000]


def describe(tier):
    return {
        "rule": f"T: {len(c01.classes())} cipher-state classes x IPv4/IPv6 x segment sizes (1460, 100, 9) with distinct MAC/IP/port per "
                "connection and awkward sub-second parts, four connections per capture (two of them between the same IP addresses as the first but over other MAC addresses); T also: closing alerts and a run with -a in which added handshake/alert material must travel in its sender's direction; Q: QUIC default + every 1-deviation scenario of C02's menu (incl. instants nanoseconds apart, Version Negotiation), CRYPTO-only tails, every cut; "
                "M: all 10^6 microsecond values x seconds {0,1,2^31-1,2^31,2^32-1,1.7e9}" + (" (quick: seconds 1.7e9 and 2^32-1 "
                "exhaustive, the others every 97th microsecond)" if tier == "quick" else "") +
                ". non-trivial: T/Q - an execution in which >= 2 output packets with payload were attributed; M - every timestamp; "
                "distinct = distinct scenario / timestamp",
        "exhaustive": True,
        "bounds": {"microseconds": 1000000, "seconds": SECONDS},
        "min_nontrivial": 1000,
        "assumptions": [
            "the model knows which input packets overlap which record; an output packet may carry the timestamp of ANY of them "
            "(set membership, as the property says 'an input packet that carried (part of) the same record')",
            "layer M drives the Reader and the Writer the way run() does (timestamps pass through run() unchanged in between, which "
            "layers T and Q observe end to end)",
        ],
    }


def cases(tier, seed):
    for i, cls in enumerate(c01.classes()):
        yield {"layer": "T", "cls": list(cls), "seed": seed}
    yield {"layer": "Q", "d1": None, "seed": seed}
    for d1 in c02.ALTS:
        yield {"layer": "Q", "d1": d1, "seed": seed}
    for si, sec in enumerate(SECONDS):
        stride = 1 if (tier == "thorough" or sec in (1700000000, (1 << 32) - 1)) else 97
        for chunk in range(20):
            yield {"layer": "M", "sec": sec, "chunk": chunk, "stride": stride}


def check_tls_flow(an, flow, pkts, sig, fails):
    conn, ends = flow.conn, flow.ends
    c = scen.tcp_streams(an, ends)
    if c is None:
        fails.append({"kind": "nothing_exported", "sig": sig, "detail": ""})
        return 0
    if c["c2s"] != conn.plain["c"] or c["s2c"] != conn.plain["s"]:
        fails.append({"kind": "stream_mismatch", "sig": sig, "detail": ""})
        return 0
    # allowed timestamps per application record (non-empty ones), per direction
    mine = [p for p in pkts if p.conn == flow.id and p.payload]
    rr = scen.record_ranges(conn)
    allowed = {"c": [], "s": []}
    first_rec_ts = None
    for d, s, e, r in rr:
        if r.kind != "app":
            continue
        ts = {p.ts for p in mine if p.dir == d and p.start < e and p.end > s}
        if first_rec_ts is None:
            first_rec_ts = set(ts)
        elif not any(x[0] for dd in allowed.values() for x in dd):
            first_rec_ts |= ts        # leading empty records: the first non-empty record is acceptable too
        if r.plain:
            allowed[d].append([len(r.plain), ts])
    cnt = 0
    pos = {"c": 0, "s": 0}
    idx = {"c": 0, "s": 0}
    for ts, dname, payload, fr in c["data"]:
        d = "c" if dname == "c2s" else "s"
        while allowed[d][idx[d]][0] == 0:
            idx[d] += 1
        ln, tset = allowed[d][idx[d]]
        if len(payload) > ln:
            fails.append({"kind": "output_packet_spans_records", "sig": sig, "detail": f"{len(payload)} > {ln}"})
            return cnt
        if ts not in tset:
            fails.append({"kind": "timestamp_not_of_a_carrying_packet", "sig": dict(sig, dir=d),
                          "detail": f"output packet time {float(ts):.6f}, packets carrying the record: {sorted(float(t) for t in tset)}"})
            return cnt
        allowed[d][idx[d]][0] -= len(payload)
        src, dst = (ends.client, ends.server) if d == "c" else (ends.server, ends.client)
        if (fr.src_mac, fr.dst_mac) != (src.mac, dst.mac) or (fr.src_ip, fr.dst_ip) != (src.ip, dst.ip) or \
                (fr.sport if d == "c" else fr.dport) != ends.client.port or fr.v6 != ends.v6:
            fails.append({"kind": "wrong_endpoints_or_direction", "sig": dict(sig, dir=d), "detail": repr(fr)})
            return cnt
        cnt += 1
    if c["client_mac"] != ends.client.mac or c["server_mac"] != ends.server.mac or c["client"] != ends.client.key():
        fails.append({"kind": "wrong_endpoints_in_tcp_handshake", "sig": sig, "detail": ""})
    if first_rec_ts is not None and any(t not in first_rec_ts for t in c["hs_ts"]):
        fails.append({"kind": "handshake_timestamp", "sig": sig,
                      "detail": f"synthetic handshake at {[float(t) for t in c['hs_ts']]}, first exported record carried at {sorted(float(t) for t in first_rec_ts)}"})
    return cnt


def check_meta_direction(an, flow, sig, fails):
    """-a: every exported payload of >= 7 bytes that is a piece of something only ONE endpoint sent (a raw record or a
    plaintext) must be exported in that endpoint's direction, with that endpoint's addresses"""
    conn, ends = flow.conn, flow.ends
    c = scen.tcp_streams(an, ends)
    if c is None:
        return
    mat = {"c": [], "s": []}
    for r in conn.records:
        mat[r.dir].append(r.raw)
        if r.plain:
            mat[r.dir].append(r.plain)
    for ts, dname, payload, fr in c["data"]:
        if len(payload) < 7:
            continue
        d = "c" if dname == "c2s" else "s"
        o = "s" if d == "c" else "c"
        own = any(payload in m for m in mat[d])
        other = any(payload in m for m in mat[o])
        if other and not own:
            fails.append({"kind": "metadata_exported_in_the_wrong_direction", "sig": dict(sig, dir=o),
                          "detail": f"{len(payload)} bytes that only the {'client' if o == 'c' else 'server'} sent are exported as sent by the other side: {fr!r}"})
            return


def check_quic_flow(an, flow, pkts, sig, fails):
    conn, ends = flow.conn, flow.ends
    ex = scen.udp_export(an, ends)
    mine = [p for p in pkts if p.conn == flow.id]
    want = [(g.dir, g.stream, p.ts) for g, p in zip(conn.dgrams, mine) if g.stream]
    got = [(d, pl, ts) for d, pl, ts in ex]
    if [(d, pl) for d, pl, _ in got] != [(d, pl) for d, pl, _ in want]:
        fails.append({"kind": "payload_mismatch", "sig": sig, "detail": ""})
        return 0
    for (d, pl, ts), (_, _, wts) in zip(got, want):
        if abs(ts - wts) >= Fraction(1, 10 ** 6):        # preserved to microsecond resolution
            fails.append({"kind": "timestamp_not_of_the_input_datagram", "sig": dict(sig, dir=d),
                          "detail": f"output {float(ts):.6f} input {float(wts):.6f}"})
            return 0
    for k, lst in an["udp"].items():
        for ts, src, dst, payload, fr in lst:
            if not payload:
                continue
            d = "c" if src == ends.client.key() else "s"
            s_, d_ = (ends.client, ends.server) if d == "c" else (ends.server, ends.client)
            if (fr.src_mac, fr.dst_mac) != (s_.mac, d_.mac) or (fr.src_ip, fr.dst_ip) != (s_.ip, d_.ip) or fr.v6 != ends.v6:
                fails.append({"kind": "wrong_endpoints_or_direction", "sig": dict(sig, dir=d), "detail": repr(fr)})
                return 0
    return len(got)


def run_case(case):
    harness.load()
    fails, nontriv = [], []
    n = 0
    sample = None
    if case["layer"] == "T":
        v, code, etm, hs = case["cls"]
        seed = case["seed"]
        cname = c01.class_name(v, code, etm, hs)
        combos = [(v6, mss, order) for v6 in (False, True) for mss in (1460, 100, 9) for order in ("in_order", "displaced")
                  if not (order == "displaced" and mss == 9)]
        # records sharing segments: consecutive writes of one direction merged, cut at sizes unrelated to record sizes
        combos += [(v6, mss, "merged") for v6 in (False, True) for mss in (1460, 333, 77)]
        combos += [(False, 400, "duplex"), (True, 211, "duplex")]
        for v6, mss, order in combos:
            # closing alerts end the connections (not in the full-duplex captures, where the interleaving would put data behind them)
            scn = {"version": v, "suite": code, "etm": etm, "hs_secrets": hs, "close_alerts": None if order == "duplex" else ("c", "s"),
                   "history": [("c", 0), ("c", 130), ("s", 420), ("s", 17), ("c", 260), ("s", 1)]}
            if order in ("merged", "duplex"):
                scn["history"] = [("c", 0), ("c", 130), ("c", 5), ("s", 420), ("s", 17), ("s", 300), ("s", 40), ("c", 260), ("c", 90), ("s", 1)]
            f1 = scen.tls_flow(scn, seed, 3, v6=v6, mss=mss, merged=(order in ("merged", "duplex")))
            f2 = scen.tls_flow(dict(scn, history=[("s", 33), ("s", 5), ("c", 250), ("c", 7), ("c", 600)]), seed, 4, v6=not v6, mss=mss,
                               key=("second",), merged=(order in ("merged", "duplex")))
            if order == "duplex":
                for f in (f1, f2):
                    f.pkts[:] = scen.duplex_interleave(f.pkts, scen.first_app_packet(f.conn, f.pkts))
            if order == "displaced":
                # every other non-first data segment that is directly followed by a segment of its own direction is captured
                # after that successor, so neighbouring segments meet in the reassembly buffer
                for f in (f1, f2):
                    pk0, seen, i, flip = f.pkts, set(), 0, 0
                    while i < len(pk0) - 1:
                        p, q = pk0[i], pk0[i + 1]
                        if p.payload and q.payload and p.dir == q.dir and p.dir in seen:
                            flip += 1
                            if flip % 2:
                                pk0[i], pk0[i + 1] = q, p
                                i += 2
                                continue
                        if p.payload:
                            seen.add(p.dir)
                        i += 1
            # two further connections between the SAME two IP addresses as connection 1 but over other link-layer addresses
            # (a second path / another hop), one TLS and one QUIC, each with ports of its own
            f3 = scen.tls_flow(dict(scn, history=[("c", 45), ("s", 61), ("c", 8)]), seed, 5, v6=v6, key=("third",))
            f4 = scen.quic_flow({"suite": 0x1301, "script": [("c", [(0, 40)]), ("s", [(0, 50)]), ("c", [(0, 6)])]}, seed, 6, v6=v6)
            for f in (f3, f4):
                f.ends.client.ip, f.ends.server.ip = f1.ends.client.ip, f1.ends.server.ip
            ends = {3: f1.ends, 4: f2.ends, 5: f3.ends, 6: f4.ends}
            pkts = cap.stamp(scen.round_robin([f1.pkts, f2.pkts, f3.pkts, f4.pkts]), ends)
            res = scen.run(pkts, f1.keylog() + f2.keylog() + f3.keylog() + f4.keylog())
            n += 1
            sig = {"layer": "T", "class": cname, "v6": v6, "mss": mss, "order": order}
            try:
                an = scen.analyse(res)
            except scen.ExportError as e:
                fails.append({"kind": e.kind, "sig": sig, "detail": e.detail})
                continue
            before = len(fails)
            if order == "in_order":
                # the same capture with metadata export: whatever is exported in addition (handshake, change-cipher-spec and
                # alert records, verbatim) must travel in the direction of the endpoint that sent it
                res_a = scen.run(pkts, f1.keylog() + f2.keylog() + f3.keylog() + f4.keylog(), ["-a"])
                n += 1
                try:
                    an_a = scen.analyse(res_a)
                    for fi, f in ((1, f1), (2, f2), (3, f3)):
                        check_meta_direction(an_a, f, dict(sig, flow=fi, args="-a"), fails)
                except scen.ExportError as e:
                    fails.append({"kind": e.kind, "sig": dict(sig, args="-a"), "detail": e.detail})
            cnt = check_tls_flow(an, f1, pkts, sig, fails) + check_tls_flow(an, f2, pkts, dict(sig, flow=2), fails)
            check_tls_flow(an, f3, pkts, dict(sig, flow=3), fails)
            check_quic_flow(an, f4, pkts, dict(sig, flow=4), fails)
            if len(fails) == before and cnt >= 2:
                nontriv.append(engine.jhash(sig))
                if sample is None:
                    sample = {"scenario": sig, "attributed_output_packets": cnt}
    elif case["layer"] == "Q":
        seed = case["seed"]
        scs = [{}] if case["d1"] is None else [{case["d1"]: v} for v in c02.ALTS[case["d1"]]]
        runs = []
        for sc in scs:
            if not c02.valid(sc):
                continue
            for tail in (None, "c", "s"):
                runs.append((sc, tail, None))
        if case["d1"] is None:
            # every cut of the default connection (with a CRYPTO-only tail): the capture may end anywhere
            full = scen.quic_conn(dict(c02.to_model({}), tail="c"), seed)
            for cut in range(1, len(full.dgrams)):
                runs.append(({}, "c", cut))
        for sc, tail, cut in runs:
            conn = scen.quic_conn(dict(c02.to_model(sc), tail=tail), seed)
            if cut is not None:
                conn.dgrams = conn.dgrams[:cut]
            e = cap.Ends(8, v6=bool(sc.get("v6")))
            flow = scen.Flow("quic", conn, e, 0, scen.quic_packets(conn, 0))
            pkts = cap.stamp(flow.pkts, {0: e})
            c02.restamp(pkts, sc.get("ts"))
            res = scen.run(pkts, conn.keylog)
            n += 1
            sig = {"layer": "Q", "dev": {k: str(v) for k, v in sc.items()}, "tail": tail, "cut": cut}
            try:
                an = scen.analyse(res)
            except scen.ExportError as ex:
                fails.append({"kind": ex.kind, "sig": sig, "detail": ex.detail})
                continue
            before = len(fails)
            cnt = check_quic_flow(an, flow, pkts, sig, fails)
            if len(fails) == before and cnt >= 1:
                nontriv.append(engine.jhash(sig))
                if sample is None:
                    sample = {"scenario": sig, "attributed_output_datagrams": cnt}
    else:
        return run_m(case)
    r = {"n": n, "fails": fails, "nontrivial": nontriv, "outcomes": []}
    if sample:
        r["sample"] = sample
    return r


def run_m(case):
    import dpkt
    from tlexport.dpkt_dsb import Reader
    sec, chunk, stride = case["sec"], case["chunk"], case["stride"]
    frame = b"\xff" * 6 + b"\x02" * 6 + b"\x08\x06" + b"\x00" * 28
    us = list(range(chunk * 50000, (chunk + 1) * 50000, stride))
    # lean pcapng: SHB, IDB (microseconds), one EPB per timestamp
    body = struct.pack("<IHHq", 0x1A2B3C4D, 1, 0, -1)
    parts = [struct.pack("<II", pcapio.BT_SHB, 12 + len(body)) + body + struct.pack("<I", 12 + len(body)),
             struct.pack("<IIHHII", pcapio.BT_IDB, 20, 1, 0, 0, 20)]
    pad = b"\x00" * (-len(frame) % 4)
    bl = 32 + len(frame) + len(pad)
    for u in us:
        t = sec * 10 ** 6 + u
        parts.append(struct.pack("<IIIIIII", pcapio.BT_EPB, bl, 0, t >> 32, t & 0xFFFFFFFF, len(frame), len(frame)) + frame + pad +
                     struct.pack("<I", bl))
    data = b"".join(parts)
    rd = Reader(io.BytesIO(data))
    out = io.BytesIO()
    w = dpkt.pcapng.Writer(out, snaplen=20000)
    cnt = 0
    for ts, buf in rd:
        w.writepkt(bytes(buf), float(ts))
        cnt += 1
    raw = out.getvalue()
    # lean read-back of the EPB timestamp fields (structure is validated by the strict reader in every other layer)
    pos = 0
    back = []
    while pos < len(raw):
        bt, ln = struct.unpack_from("<II", raw, pos)
        if bt == pcapio.BT_EPB:
            _, hi, lo = struct.unpack_from("<III", raw, pos + 8)
            back.append((hi << 32) | lo)
        pos += ln
    fails = []
    if cnt != len(us) or len(back) != len(us):
        fails.append({"kind": "packet_count", "sig": {"layer": "M", "sec": sec}, "detail": f"{cnt}/{len(back)} of {len(us)}"})
    else:
        for u, t in zip(us, back):
            if t != sec * 10 ** 6 + u:
                fails.append({"kind": "timestamp_not_preserved", "sig": {"layer": "M", "sec": sec}, "sub": {"us": u},
                              "detail": f"{sec}.{u:06d} came back as {t // 10 ** 6}.{t % 10 ** 6:06d}"})
                break
    return {"n": len(us), "fails": fails, "nontrivial_n": len(us) if not fails else 0, "outcomes": [f"M{sec}"],
            "sample": {"layer": "M", "second": sec, "microseconds": f"{us[0]}..{us[-1]} step {stride}"}}
