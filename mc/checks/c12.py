"""C12 - the export does not depend on the capture container.

deviations(k<=2) from {pcapng, little-endian, default if_tsresol, if_tsoffset 0, no extra blocks or
options}: legacy pcap (-l) LE/BE/nanosecond, big-endian pcapng, if_tsresol powers of 10 and 2,
if_tsoffset, unrelated blocks (NRB, ISB, custom, unknown, Simple Packet) at every position, extra
options on SHB/IDB/EPB.  Every variant denotes exactly the same instants.  Oracle: output bytes
identical to the base container's."""
import struct
from fractions import Fraction
from .. import harness, scen, engine
from ..model import cap, tls, pcapio

PROP = "C12"
LEVEL = "exploration"
BASES = ["tls12", "tls13", "quic", "mixed", "snap"]
SNAP_CUT = 5     # base 'snap': three packets were captured without their last 5 bytes (captured length < original length)
T0 = Fraction(100000)
STEP = Fraction(1, 8)

ALTS = {
    "format": ["pcap_le", "pcap_be", "pcap_nano_le", "pcap_nano_be", "pcapng_be"],
    "tsresol": [3, 6, 9, 12, 0x80 | 10, 0x80 | 20, 0x80 | 30],
    "tsoffset": [3600, -3600, 99990, [3600, "option_before_tsresol"], [99990, "option_before_tsresol"]],
    "pre_idb": [["nrb"], ["isb"], ["custom"], ["custom_len1"], ["custom_len4"], ["custom_len5"], ["custom_len12"], ["unknown"],
                ["custom_len1", "nrb"], ["spb"]],
    "block": [[k, "every"] for k in ("nrb", "isb", "custom", "custom_nc", "unknown", "spb", "idb2", "custom_big")],
    "options": ["shb_comment", "idb_names", "epb_flags", "all"],
}


def describe(tier):
    return {
        "rule": "bases TLS 1.2, TLS 1.3, QUIC, mixed, and a capture with three snap-cut packets (application data, a QUIC datagram, the middle of a handshake flight) (captured length < original length); every container variant within 2 deviations of the default over: 5 formats, 7 "
                "if_tsresol values, 3 if_tsoffset values, 8 kinds of unrelated block (incl. a 400 kB one and the description of a second, unused interface with another resolution) each inserted at EVERY position (one execution "
                "per position), 4 option sets. non-trivial: a variant whose output equals the base output and holds data; "
                "distinct = distinct (base, variant, position)",
        "exhaustive": True,
        "bounds": {"deviations": 2},
        "min_nontrivial": 300,
        "assumptions": [
            "capture instants are 100000 s + k/8 s so that every resolution and offset denotes exactly the same instants; a separate "
            "layer uses nanosecond-precise instants at a present-day epoch over the containers that can carry them (the data "
            "dimension - which instants - is drawn from VERIF_SEED)",
            "legacy pcap cannot carry if_tsresol/if_tsoffset/extra blocks: those combinations are skipped; legacy variants use -l",
        ],
    }


def base_capture(name, seed):
    flows = []
    if name == "snap":
        flows.append(scen.tls_flow({"version": tls.TLS12, "suite": 0x009C, "history": [("c", 30), ("s", 50), ("s", 61), ("s", 72), ("c", 20)]}, seed, 0))
        flows.append(scen.quic_flow({"suite": 0x1301, "script": [("c", [(0, 30)]), ("s", [(0, 44)]), ("s", [(0, 55)]), ("c", [(0, 9)])]}, seed, 2))
        flows.append(scen.tls_flow({"version": tls.TLS12, "suite": 0xC030, "history": [("c", 33), ("s", 66)]}, seed, 3, mss=300))
    if name in ("tls12", "mixed"):
        flows.append(scen.tls_flow({"version": tls.TLS12, "suite": 0x009C, "history": [("c", 30), ("s", 50)]}, seed, 0))
    if name in ("tls13", "mixed"):
        flows.append(scen.tls_flow({"version": tls.TLS13, "suite": 0x1301, "history": [("c", 31), ("s", 51)]}, seed, 1, v6=True))
    if name in ("quic", "mixed"):
        flows.append(scen.quic_flow({"suite": 0x1302}, seed, 2))
    ends = {f.id: f.ends for f in flows}
    pkts = cap.stamp(scen.round_robin([f.pkts for f in flows]), ends, t0=T0, step=STEP)
    lines = []
    for f in flows:
        lines += f.keylog()
    if name == "snap":
        # the last but one data packet the TLS server sent and the last but one datagram of the QUIC server are snap-cut
        for cid in (0, 2):
            srv = [p for p in pkts if p.conn == cid and p.dir == "s" and p.payload]
            srv[-2].frame = SnapFrame(srv[-2].frame)
        # ... and so is the first segment of the third connection's server flight (the missing bytes lie in the certificate,
        # which nobody interprets - but the TCP stream has a hole there)
        srv = [p for p in pkts if p.conn == 3 and p.dir == "s" and p.payload]
        srv[0].frame = SnapFrame(srv[0].frame)
    return pkts, lines


class SnapFrame(bytes):
    """marks a frame of which the capture holds all but the last SNAP_CUT bytes"""


def items_of(pkts):
    return [pcapio.pkt(p.ts, p.frame[:-SNAP_CUT], orig_len=len(p.frame)) if isinstance(p.frame, SnapFrame) else pcapio.pkt(p.ts, p.frame)
            for p in pkts]


def build(pkts, var, pos=None):
    """(file bytes, extra args) or None if the combination cannot be expressed"""
    fmt = var.get("format", "pcapng_le")
    items = items_of(pkts)
    if fmt.startswith("pcap_"):
        if any(k in var for k in ("tsresol", "tsoffset", "block", "options", "pre_idb")):
            return None
        return pcapio.write_pcap(items, endian="<" if fmt.endswith("le") else ">", nano="nano" in fmt), ["-l"]
    e = ">" if fmt == "pcapng_be" else "<"
    if "block" in var:
        items.insert(pos, pcapio.extra_block(var["block"][0]))
    opts = var.get("options")
    kw = {}
    if opts in ("shb_comment", "all"):
        kw["shb_opts"] = [(1, b"written by a test"), (3, b"Linux 6.1")]
    if opts in ("idb_names", "all"):
        kw["idb_opts"] = [(2, b"eth0"), (3, b"uplink"), (12, b"Linux")]
    if opts in ("epb_flags", "all"):
        kw["epb_opts"] = [(2, struct.pack(e + "I", 1)), (1, b"pkt")]
    to = var.get("tsoffset")
    if isinstance(to, (list, tuple)):
        kw["tsoffset_first"] = True
        to = to[0]
    if "pre_idb" in var:
        kw["pre_idb"] = tuple(var["pre_idb"])
    try:
        return pcapio.write_pcapng(items, endian=e, tsresol=var.get("tsresol"), tsoffset=to, **kw), []
    except ValueError:
        return None


NS_CONTAINERS = [{"tsresol": 9}, {"tsresol": 9, "format": "pcapng_be"}, {"tsresol": 9, "tsoffset": 1695718000},
                 {"tsresol": 9, "tsoffset": -1000}, {"format": "pcap_nano_le"}, {"format": "pcap_nano_be"}]


def cases(tier, seed):
    for part in range(8):
        yield {"base": "tls12", "d1": "ns", "part": part, "seed": seed, "trials": 12 if tier == "quick" else 60}
    for b in BASES:
        yield {"base": b, "d1": None, "seed": seed}
        for d1 in ALTS:
            for v1 in ALTS[d1]:
                yield {"base": b, "d1": d1, "v1": v1, "seed": seed}


def run_ns(case):
    """instants with nanosecond precision at a present-day epoch: every container that can carry them (pcapng with
    if_tsresol 9 in both byte orders and with offsets, legacy nanosecond pcap) must give the same export"""
    seed = case["seed"]
    base_name = "mixed" if case["part"] % 2 == 0 else "quic"
    pkts, lines = base_capture(base_name, seed)
    kl = "\n".join(lines) + "\n"
    rng = scen.rng_for(seed, "c12ns", case["part"])
    ends = None
    fails, nontriv = [], []
    n = 0
    sample = None
    for trial in range(case["trials"]):
        t = Fraction(1695718386)
        pk = [p.copy() for p in pkts]
        for k, p in enumerate(pk):
            # every third packet follows its predecessor by a few nanoseconds only (distinct instants that a float cannot
            # tell apart at this epoch)
            t += Fraction(rng.randrange(1, 120), 10 ** 9) if k % 3 == 2 else Fraction(rng.randrange(1, 10 ** 9), 10 ** 9)
            p.ts = t
        outs = []
        for var in NS_CONTAINERS:
            items = cap.to_items(pk)
            if var.get("format", "").startswith("pcap_"):
                data, args = pcapio.write_pcap(items, endian="<" if var["format"].endswith("le") else ">", nano=True), ["-l"]
            else:
                data = pcapio.write_pcapng(items, endian=">" if var.get("format") == "pcapng_be" else "<", tsresol=9,
                                           tsoffset=var.get("tsoffset"))
                args = []
            res = harness.run_tlexport(data, kl, args, infile="in.pcap" if args else "in.pcapng")
            n += 1
            outs.append((var, res))
        ref = outs[0][1]
        for var, res in outs:
            sig = {"base": base_name, "variant": dict(var, instants="nanosecond precision")}
            if not res.ok:
                fails.append({"kind": "run_failed", "sig": sig, "detail": res.status + res.detail[-200:]})
            elif res.out != ref.out:
                d = ""
                try:
                    a, b_ = pcapio.read_pcapng(ref.out), pcapio.read_pcapng(res.out)
                    for x, y in zip(a, b_):
                        if x[0] != y[0]:
                            d = f"a packet is stamped {float(x[0]):.6f} from pcapng(ns) and {float(y[0]):.6f} from this container"
                            break
                except Exception:
                    pass
                fails.append({"kind": "export_differs", "sig": sig, "sub": {"trial": trial}, "detail": d})
            else:
                nontriv.append(engine.jhash([case["part"], trial, var]))
                if sample is None:
                    sample = {"layer": "ns", "containers": NS_CONTAINERS, "first_instant": str(pk[0].ts)}
    uniq = {}
    for f in fails:
        uniq.setdefault(engine.jhash([f["kind"], f["sig"]]), f)
    r = {"n": n, "fails": list(uniq.values()), "nontrivial": nontriv, "outcomes": []}
    if sample:
        r["sample"] = sample
    return r


def run_case(case):
    harness.load()
    if case.get("d1") == "ns":
        return run_ns(case)
    b, seed = case["base"], case["seed"]
    pkts, lines = base_capture(b, seed)
    kl = "\n".join(lines) + "\n"
    data, args = build(pkts, {})
    base = harness.run_tlexport(data, kl, args)
    try:
        an = scen.analyse(base)
    except scen.ExportError as e:
        return {"n": 1, "fails": [{"kind": "base_" + e.kind, "sig": {"base": b}, "detail": e.detail}]}
    if not any(fr.payload for _, fr in an["packets"]):
        return {"n": 1, "harness_error": f"base {b} exports no data"}
    fails, nontriv = [], []
    n = 1
    sample = None

    def one(var):
        nonlocal n, sample
        positions = range(len(pkts) + 1) if "block" in var else [None]
        for pos in positions:
            built = build(pkts, var, pos)
            if built is None:
                return
            data, args = built
            res = harness.run_tlexport(data, kl, args, infile="in.pcap" if args else "in.pcapng")
            n += 1
            sig = {"base": b, "variant": {k: (v[0] if k == "block" else v) for k, v in var.items()}}
            if not res.ok:
                fails.append({"kind": "run_failed", "sig": sig, "sub": {"pos": pos}, "detail": res.status + " " + res.detail[-300:]})
            elif res.out != base.out:
                fails.append({"kind": "export_differs", "sig": sig, "sub": {"pos": pos},
                              "detail": f"output {len(res.out or b'')} bytes, base {len(base.out)} bytes (block position {pos})"})
            else:
                nontriv.append(engine.jhash([b, var, pos]))
                if sample is None:
                    sample = {"base": b, "variant": var, "position": pos, "file_bytes": len(data)}

    if case["d1"] is None:
        one({})
    else:
        d1, v1 = case["d1"], case["v1"]
        one({d1: v1})
        dims = list(ALTS)
        for d2 in dims[dims.index(d1) + 1:]:
            for v2 in ALTS[d2]:
                one({d1: v1, d2: v2})
    uniq = {}
    for f in fails:
        uniq.setdefault(engine.jhash([f["kind"], f["sig"]]), f)
    r = {"n": n, "fails": list(uniq.values()), "nontrivial": nontriv, "outcomes": [scen.digest(base.out)]}
    if sample:
        r["sample"] = sample
    return r
