"""C02 - QUIC v1 STREAM data is exported exactly, datagram by datagram.

 layer K  deviations(k<=2) from the default connection over ~110 alternatives (suite, offered
          order, CID lengths, packet-number encoding, coalescing, frames around STREAM, several
          STREAM frames/streams, STREAM flags, ClientHello split over CRYPTO frames in every
          order, Retry, 0-RTT, NEW_CONNECTION_ID switch, IPv6)
 layer F  every sequence of <=2 (thorough 3) non-STREAM frames before and after the STREAM frame
 layer U  explicit-state search of the RFC 9001 section 6 key-update protocol; every distinct packet
          history it can produce (<= 8 packets, <= 3 generations) is rendered and replayed
Oracle: the (direction, payload) list of non-empty output datagrams equals, in order, one entry per
input datagram that carried stream data.
"""
import itertools
from .. import harness, scen, engine
from ..model import cap, quic
from ..model import quicframes as qf

PROP = "C02"
LEVEL = "model_checking"


def frame_menu(rng_bytes=b"0123456789abcdef"):
    return {
        "PADDING": qf.padding(3)[0], "PING": qf.ping()[0], "ACK": qf.ack(largest=3, delay=2, first=1)[0],
        "ACK_ECN": qf.ack(largest=3, delay=2, first=1, ecn=(1, 0, 2))[0], "ACK_RANGES": qf.ack(largest=9, ranges=((1, 2),), first=1)[0],
        # counts and delays that need 2-, 4- and 8-byte varints next to 1-byte ones
        "ACK_ECN_WIDE": qf.ack(largest=300, delay=20000, first=1, ecn=(70, 1 << 30, 2))[0],
        "ACK_RANGES_WIDE": qf.ack(largest=70000, delay=2, ranges=((1, 200), (300, 1)), first=100)[0],
        # a CONNECTION_CLOSE in FRONT of the STREAM frame of the same packet (RFC 9000 12.4 allows any order of frames)
        "CONNECTION_CLOSE": qf.connection_close(err=0, ftype=0, reason=b"bye")[0],
        "CONNECTION_CLOSE_APP": qf.connection_close(err=3, reason=b"", app=True)[0],
        "CRYPTO": qf.crypto(0, b"\x04\x00\x00\x04abcd")[0],
        "NEW_TOKEN": qf.new_token(b"tok-tok-tok")[0], "NEW_CONNECTION_ID": qf.new_connection_id(5, b"NEWCID!!", token=rng_bytes)[0],
        "MAX_DATA": qf.max_data(5000)[0], "MAX_STREAM_DATA": qf.max_stream_data(4, 70000)[0], "MAX_STREAMS": qf.max_streams(40)[0],
        "DATAGRAM": qf.datagram(b"unreliable")[0], "HANDSHAKE_DONE": qf.handshake_done()[0],
        "RESET_STREAM": qf.reset_stream()[0], "STOP_SENDING": qf.stop_sending()[0], "PATH_CHALLENGE": qf.path_challenge()[0],
        "RETIRE_CONNECTION_ID": qf.retire_connection_id()[0], "DATA_BLOCKED": qf.data_blocked(300)[0],
    }


FRAMES_K = ["PADDING", "PING", "ACK", "ACK_ECN", "ACK_RANGES", "ACK_ECN_WIDE", "ACK_RANGES_WIDE", "CRYPTO", "NEW_TOKEN", "NEW_CONNECTION_ID", "MAX_DATA",
            "MAX_STREAM_DATA", "MAX_STREAMS", "DATAGRAM", "HANDSHAKE_DONE"]
FRAMES_F = FRAMES_K + ["RESET_STREAM", "STOP_SENDING", "PATH_CHALLENGE", "RETIRE_CONNECTION_ID", "DATA_BLOCKED"]

SCRIPTS = {
    "two_frames": [("c", [(0, 10), (4, 20)]), ("s", [(0, 5), (0, 7), (3, 9)]), ("c", [(8, 1)]), ("s", [(0, 2)])],
    "bursts": [("c", [(0, 100)]), ("c", [(0, 100)]), ("c", [(4, 3)]), ("s", [(0, 1200)]), ("s", [(0, 1200)]), ("s", [(0, 7)])],
    "empty_and_fin": [("c", [(0, 0)]), ("s", [(0, 10)]), ("c", [(0, 5), (4, 0)]), ("s", [(3, 1)])],
    "server_first": [("s", [(3, 40)]), ("c", [(0, 40)]), ("s", [(0, 40)])],
    # 280 datagrams per direction: packet numbers pass 255/256 (one-byte encodings wrap), stream offsets pass 2^14
    "long": [("c", [(0, 61)])] * 140 + [("s", [(0, 63)])] * 280 + [("c", [(4, 2)])] * 140,
}

FRAMES_BEFORE = FRAMES_K + ["CONNECTION_CLOSE", "CONNECTION_CLOSE_APP"]

ALTS = {
    "suite": [0x1302, 0x1303, 0x1304],
    "offered": ["other_first", "grease_first", "chacha_first", "single"],
    "ccid_len": [0, 1, 20],
    "scid_len": [0, 1, 20],
    "odcid_len": [20],
    "pn": [(1, 0, 1), (3, 0, 1), (4, 0, 1), (2, 1, 1), (1, 100, 1), (2, 255, 1), (2, 256, 1), (3, 65535, 1), (4, (1 << 31) - 2, 1),
           (2, 0, 2), (2, 0, 200), (3, 0, 70000), (1, 0, 100)],
    "coalesce": ["ini+hs", "ini+hs+1rtt", "hs+1rtt"],
    "before": FRAMES_BEFORE,
    "after": FRAMES_K,
    "script": list(SCRIPTS),
    "stream_flags": ["off", "fin", "off+fin", "nolen", "nolen+off", "nolen+fin", "nolen+off+fin"],
    # <pieces>:<order>:<p = one Initial per piece | s = one Initial>[:o<n> = every piece repeats the first n bytes of its successor]
    "ch_split": [f"{k}:{''.join(map(str, o))}:{'p' if p else 's'}" for k, cuts in (("2", (100,)), ("3", (50, 150)))
                 for o in itertools.permutations(range(len(cuts) + 1)) for p in (False, True)] +
                [f"3:{''.join(map(str, o))}:{'p' if p else 's'}:o{ov}" for o in itertools.permutations(range(3)) for p in (False, True)
                 for ov in (1, 40, 400)],
    "retry": [True, 63, 64, 96, 300],          # Retry with a 24-byte token / with a token of that many bytes (Token Length needs 2 bytes from 64 on)
    "token": [1, 63, 64, 300],                 # the first Initial already presents a token (from NEW_TOKEN) of that many bytes
    "zero_rtt": [True],
    "vn": [True],
    "ch_ack_between": [True],                  # with a ClientHello in several Initial packets: the server's ACK-only Initial comes in between                              # a Version Negotiation datagram answers the client's first Initial
    "ncid": ["s8", "s8c8", "s20c4", "s1c1", "s1c1eq", "s8c8eq"],
    "v6": [True],
    # ns_close_<g>: nanosecond-resolution capture, consecutive datagrams g nanoseconds apart (within one microsecond; 1 and 130 ns
    # are closer than a float can tell apart at this epoch)
    "ts": ["swap_pairs", "descending", "ns_close_1", "ns_close_130", "ns_close_400"],
}


ALTS3 = {
    "suite": [0x1302, 0x1303, 0x1304], "offered": ["other_first", "chacha_first"], "ccid_len": [0], "scid_len": [0, 20],
    "pn": [(1, 0, 1), (4, (1 << 31) - 2, 1)], "coalesce": ["ini+hs+1rtt"], "ch_split": ["2:10:p", "3:201:s"], "retry": [True],
    "zero_rtt": [True], "ncid": ["s8c8"], "v6": [True], "stream_flags": ["nolen+off+fin"], "script": ["two_frames"],
}


def to_model(sc):
    """translate a symbolic scenario into model options"""
    m = {}
    suite = sc.get("suite", 0x1301)
    m["suite"] = suite
    other = 0x1302 if suite != 0x1302 else 0x1301
    off = sc.get("offered")
    if off == "other_first":
        m["offered"] = [other, suite]
    elif off == "grease_first":
        m["offered"] = [0x0A0A, suite, other]
    elif off == "chacha_first":
        m["offered"] = [0x1303, suite] if suite != 0x1303 else [0x1303, 0x1301]
    elif off == "single":
        m["offered"] = [suite]
    for k in ("ccid_len", "scid_len", "odcid_len", "coalesce", "retry", "zero_rtt", "vn", "ch_ack_between"):
        if k in sc:
            m[k] = sc[k]
    if sc.get("retry") not in (None, True, False):
        m["retry"], m["retry_token_len"] = True, sc["retry"]
    if "token" in sc:
        m["token"] = bytes((7 * i + 1) & 0xFF for i in range(sc["token"]))
    if "pn" in sc:
        m["pn_len"], m["pn_start"], m["pn_gap"] = sc["pn"]
    fm = frame_menu()
    if "before" in sc:
        m["before"] = tuple(fm[x] for x in ([sc["before"]] if isinstance(sc["before"], str) else sc["before"]))
    if "after" in sc:
        m["after"] = tuple(fm[x] for x in ([sc["after"]] if isinstance(sc["after"], str) else sc["after"]))
    if "script" in sc:
        m["script"] = SCRIPTS[sc["script"]]
    if "stream_flags" in sc:
        f = sc["stream_flags"].split("+")
        m["stream_flags"] = {"len": "nolen" not in f, "off": "off" in f, "fin": "fin" in f, "offset": 1234 if "off" in f else 0}
    if "ch_split" in sc:
        k, order, p = sc["ch_split"].split(":")[:3]
        m["ch_split"] = {"cuts": (100,) if k == "2" else (50, 150), "order": tuple(int(c) for c in order), "packets": p == "p"}
        if sc["ch_split"].count(":") == 3:
            m["ch_split"]["overlap"] = int(sc["ch_split"].rsplit(":o", 1)[1])
    if "ncid" in sc:
        n = sc["ncid"]
        d = {}
        if n.endswith("eq"):
            d["equal"] = True
            n = n[:-2]
        d["s_len"] = int(n[1:].split("c")[0])
        if "c" in n:
            d["c_len"] = int(n.split("c")[1])
        m["ncid"] = d
    return m


def valid(sc):
    if sc.get("zero_rtt") and sc.get("offered") in ("other_first", "grease_first", "chacha_first"):
        return False      # 0-RTT keys belong to the resumed suite, which the client offers first
    # (0-RTT packets sent after a Retry - RFC 9000 17.2.3 - are part of the menu: the pair zero_rtt x retry)
    if "stream_flags" in sc and "nolen" in sc["stream_flags"] and "after" in sc:
        return False      # a LEN-less STREAM frame extends to the end of the packet
    n = sc.get("ncid")
    if n:
        # RFC 9000 5.1.1: an endpoint that uses a zero-length connection ID cannot issue new connection IDs
        if sc.get("scid_len") == 0:
            return False
        if sc.get("ccid_len") == 0 and "c" in n[1:]:
            return False
    if sc.get("offered") == "chacha_first" and sc.get("suite") == 0x1303:
        return False      # identical to the default order
    return True


def describe(tier):
    return {
        "rule": "K: every scenario within 2 deviations of the default QUIC v1 connection over the alternative menu (suites, offered order, connection-ID lengths, packet-number encodings, coalescing, frames before/after STREAM incl. wide ACKs and CONNECTION_CLOSE, scripts incl. 280 datagrams per direction, STREAM flags, ClientHello split into 2-3 pieces in every order / one or several Initials / overlapping pieces / the server's ACK in between, Retry and NEW_TOKEN tokens of 1..300 bytes, 0-RTT (also after a Retry), Version Negotiation, NEW_CONNECTION_ID switches, IPv6, capture instants swapped / descending / nanoseconds apart) (thorough: also every "
                "3-deviation scenario over a reduced 19-alternative menu); "
                "F: every sequence of <=2 (thorough <=3) frames from an 18-frame menu before and after the STREAM frame; "
                "U: every distinct packet history (<=8 packets, <=3 key generations; thorough <=10) produced by the RFC 9001 "
                "section 6 key-update transition system (histories reaching generation 2 also with NewSessionTicket CRYPTO frames in the server's packets). non-trivial: stream bytes exported in both directions; distinct = "
                "distinct scenario descriptors. states/transitions: those of the key-update transition system",
        "exhaustive": True,
        "bounds": {"deviations": 2, "alternatives": sum(len(v) for v in ALTS.values()), "frame_seq": 2 if tier == "quick" else 3,
                   "ku_packets": 8 if tier == "quick" else 10, "ku_generations": 3},
        "min_nontrivial": 300,
        "chunksize": 1,
        "assumptions": [
            "peer model mc/model/quic.py + kdf.py (RFC 9000/9001; anchored on RFC 9001 Appendix A vectors and the "
            "repository's QUIC captures by mc/validate.py)",
            "only QUIC v1, only conformant histories (packet-number encodings decodable by RFC 9000 A.3, key updates per "
            "RFC 9001 section 6, capture order = send order within a direction)",
            "input timestamps are unique per datagram; empty output datagrams are ignored as the property says",
            "data bytes from VERIF_SEED, not enumerated",
        ],
    }


def ku_histories(max_packets, max_gen):
    """explicit-state search of the key-update protocol (RFC 9001 section 6).
    state = (gen_c, gen_s, known_c, known_s, inflight_c, inflight_s, packets...) ; returns
    (set of packet histories [(dir, gen)...], n_states, n_transitions)"""
    init = (0, 0, 0, 0, (), (), ())
    seen = {init}
    frontier = [init]
    trans = 0
    hists = set()
    while frontier:
        nxt = []
        for st in frontier:
            gc, gs, kc, ks, fc, fs, pk = st
            succ = []
            if len(pk) < max_packets:
                succ.append((gc, gs, kc, ks, fc + (gc,), fs, pk + (("c", gc),)))           # client sends
                succ.append((gc, gs, kc, ks, fc, fs + (gs,), pk + (("s", gs),)))           # server sends
            if fc:      # deliver the oldest client packet to the server
                g = fc[0]
                succ.append((gc, max(gs, g), kc, max(ks, g), fc[1:], fs, pk))
            if fs:
                g = fs[0]
                succ.append((max(gc, g), gs, max(kc, g), ks, fc, fs[1:], pk))
            # initiate an update: only after the peer was seen at the current generation (it has acknowledged a
            # packet of this phase), never two updates ahead, and only if a packet can still be sent
            if gc < max_gen and kc == gc and gc <= gs and len(pk) < max_packets and any(d == "c" and g == gc for d, g in pk):
                succ.append((gc + 1, gs, kc, ks, fc, fs, pk))
            if gs < max_gen and ks == gs and gs <= gc and len(pk) < max_packets and any(d == "s" and g == gs for d, g in pk):
                succ.append((gc, gs + 1, kc, ks, fc, fs, pk))
            for s2 in succ:
                trans += 1
                if s2 not in seen:
                    seen.add(s2)
                    nxt.append(s2)
                    if s2[6]:
                        hists.add(s2[6])
        frontier = nxt
    return hists, len(seen), trans


def cases(tier, seed):
    yield {"layer": "K", "d1": None, "seed": seed}
    for d1 in ALTS:
        for v1 in ALTS[d1]:
            yield {"layer": "K", "d1": d1, "v1": v1, "seed": seed}
    if tier == "thorough":
        dims = list(ALTS3)
        for trip in itertools.combinations(dims, 3):
            yield {"layer": "K3", "dims": list(trip), "seed": seed}
    n = 2 if tier == "quick" else 3
    for pos in ("before", "after"):
        for f1 in FRAMES_F:
            yield {"layer": "F", "pos": pos, "first": f1, "depth": n, "seed": seed}
    mp = 8 if tier == "quick" else 10
    hists, ns, nt = ku_histories(mp, 3)
    hl = sorted(h for h in hists if max(g for _, g in h) >= 1 and len(h) >= 3)
    chunk = 64
    for i in range(0, len(hl), chunk):
        yield {"layer": "U", "hists": [[list(x) for x in h] for h in hl[i:i + chunk]], "seed": seed,
               "states": ns if i == 0 else 0, "transitions": nt if i == 0 else 0}


def restamp(pk, mode):
    """capture timestamps are unique per datagram but need not increase in file order"""
    if not mode:
        return
    ts = [p.ts for p in pk]
    if mode.startswith("ns_close_"):
        from fractions import Fraction
        g = int(mode.rsplit("_", 1)[1])
        ts = [ts[0] + Fraction(789, 10 ** 9) + Fraction(i * g, 10 ** 9) for i in range(len(ts))]
    elif mode == "descending":
        ts = ts[::-1]
    else:
        for i in range(0, len(ts) - 1, 2):
            ts[i], ts[i + 1] = ts[i + 1], ts[i]
    for p, t in zip(pk, ts):
        p.ts = t


def execute(sc, seed, conn=None):
    v6 = bool(sc.get("v6"))
    if conn is None:
        conn = scen.quic_conn(to_model(sc), seed)
    ends = cap.Ends(5, v6=v6)
    pk = cap.stamp(scen.quic_packets(conn), {0: ends})
    restamp(pk, sc.get("ts"))
    res = scen.run(pk, conn.keylog)
    try:
        an = scen.analyse(res)
    except scen.ExportError as e:
        return conn, (e.kind, e.detail), res
    r = scen.compare_quic(an, ends, conn)
    if r is None and an["tcp"]:
        r = ("foreign_flow_in_output", "tcp conversation in a QUIC-only export")
    return conn, r, res


def run_case(case):
    harness.load()
    seed = case["seed"]
    fails, nontriv, outcomes = [], [], set()
    n = 0
    count = {}
    sample = None

    def one(sc, sig, conn=None):
        nonlocal n, sample
        conn, r, res = execute(sc, seed, conn)
        n += 1
        if r is not None:
            fails.append({"kind": r[0], "sig": sig, "detail": r[1]})
        else:
            t = conn.truth()
            if any(d == "c" for d, _ in t) and any(d == "s" for d, _ in t):
                nontriv.append(engine.jhash(sig))
            outcomes.add(scen.digest(res.out))
            if sample is None:
                sample = {"scenario": sig, "datagrams": [repr(g) for g in conn.dgrams][:14]}

    if case["layer"] == "K":
        if case["d1"] is None:
            one({}, {"layer": "K", "dev": {}})
        else:
            d1, v1 = case["d1"], case["v1"]
            v1 = tuple(v1) if isinstance(v1, list) else v1
            sc = {d1: v1}
            if valid(sc):
                one(sc, {"layer": "K", "dev": {d1: str(v1)}})
            dims = list(ALTS)
            for d2 in dims[dims.index(d1) + 1:]:
                for v2 in ALTS[d2]:
                    s2 = {d1: v1, d2: v2}
                    if valid(s2):
                        one(s2, {"layer": "K", "dev": {d1: str(v1), d2: str(v2)}})
    elif case["layer"] == "K3":
        d = case["dims"]
        for vals in itertools.product(*[ALTS3[x] for x in d]):
            sc = {k: (tuple(v) if isinstance(v, list) else v) for k, v in zip(d, vals)}
            if valid(sc):
                one(sc, {"layer": "K3", "dev": {k: str(v) for k, v in sc.items()}})
    elif case["layer"] == "F":
        pos, depth = case["pos"], case["depth"]

        def rec(seq):
            one({pos: tuple(seq)}, {"layer": "F", "pos": pos, "frames": list(seq)})
            if len(seq) < depth:
                for f in FRAMES_F:
                    rec(seq + [f])
        rec([case["first"]])
    else:
        for h in case["hists"]:
            conn = scen.quic_conn({"standard": True, "script": []}, seed, key=("ku", str(h)))
            for i, (d, g) in enumerate(h):
                fr, data = conn.stream_frames([(0 if d == "c" else 3, 20 + i)])
                conn.dgram(d, [conn.short_pkt(d, fr, gen=g)], stream=data, tag=f"ku-{d}{g}")
            one({}, {"layer": "U", "history": "".join(f"{d}{g}" for d, g in h)}, conn=conn)
            if max(g for _, g in h) >= 2:
                # the same history with the server's packets also carrying a complete post-handshake message (NewSessionTicket)
                # in a CRYPTO frame next to the stream data
                conn = scen.quic_conn({"standard": True, "script": []}, seed, key=("ku-nst", str(h)))
                off = 0
                for i, (d, g) in enumerate(h):
                    fr, data = conn.stream_frames([(0 if d == "c" else 3, 20 + i)])
                    if d == "s":
                        nst = quic.hs_msg(4, bytes([i]) * 40)
                        fr = fr + qf.crypto(off, nst)[0]
                        off += len(nst)
                    conn.dgram(d, [conn.short_pkt(d, fr, gen=g)], stream=data, tag=f"ku-{d}{g}")
                one({}, {"layer": "U", "history": "".join(f"{d}{g}" for d, g in h), "new_session_tickets": True}, conn=conn)
        count["states"] = case["states"]
        count["transitions"] = case["transitions"]
        count["ku_histories"] = len(case["hists"])
    r = {"n": n, "fails": fails, "nontrivial": nontriv, "outcomes": sorted(outcomes), "count": count}
    if sample:
        r["sample"] = sample
    return r
