"""E3 - binds the reference models to reality.  None of these anchors involves TLExport.

 1. KDF cross-implementation: scapy's TLS PRF and cryptography's HKDF vs mc/model/kdf.py; RFC 9001 Appendix A
    vectors (initial keys for DCID 8394c8f03e515708, ChaCha20 keys and key update of A.5).
 2. A live OpenSSL peer (ssl + MemoryBIO): the model must open that traffic with every MAC / tag verified and
    recover exactly the bytes written.
 3. The repository's own captures of real stacks (test/testfiles, test/incomplete_pcaps with test/keylog.log;
    QUIC captures under tlexport/pcaps_und_keylogs/quic_pcaps): the model must open every protected record /
    packet it can key, with the MAC or AEAD tag verified.
Run as `python -m mc.validate`; writes .state/validation.json (summarised into the evidence of C01/C02/C15).
"""
import os
import sys
import json
import glob
import struct
import random
import warnings

warnings.simplefilter("ignore")
VERIF = os.path.dirname(os.path.dirname(os.path.abspath(__file__)))
REPO = os.environ.get("TLEXPORT_SRC", "/repo")


def kdf_cross():
    import logging
    logging.getLogger("scapy.runtime").setLevel(logging.ERROR)
    from .model import kdf
    from scapy.layers.tls.crypto.prf import PRF
    from cryptography.hazmat.primitives.kdf.hkdf import HKDFExpand, HKDF
    from cryptography.hazmat.primitives import hashes
    rng = random.Random(7)
    n = 0
    for _ in range(20):
        sec, cr, sr = rng.randbytes(48), rng.randbytes(32), rng.randbytes(32)
        for ver, args in ((0x0300, {}), (0x0301, {}), (0x0302, {}), (0x0303, {"hash_name": "SHA256"}), (0x0303, {"hash_name": "SHA384"})):
            p = PRF(tls_version=ver, **args)
            want = p.derive_key_block(sec, sr, cr, 136)
            got = kdf.key_block(ver, sec, cr, sr, 136, args.get("hash_name", "sha256").lower())
            assert got == want, f"key block differs for version {ver:#x}"
            want = p.compute_master_secret(sec, cr, sr)
            got = kdf.master_secret(ver, sec, cr, sr, args.get("hash_name", "sha256").lower())
            assert got == want, f"master secret differs for version {ver:#x}"
            n += 2
        for hname, h in (("sha256", hashes.SHA256()), ("sha384", hashes.SHA384())):
            s = rng.randbytes(h.digest_size)
            for label, ln in ((b"key", 16), (b"key", 32), (b"iv", 12), (b"quic hp", 32), (b"quic ku", h.digest_size)):
                full = b"tls13 " + label
                info = struct.pack("!HB", ln, len(full)) + full + b"\x00"
                assert HKDFExpand(h, ln, info).derive(s) == kdf.hkdf_expand_label(hname, s, label, b"", ln)
                n += 1
    # RFC 9001 Appendix A.1
    ini = kdf.quic_initial_secrets(bytes.fromhex("8394c8f03e515708"))
    c = kdf.quic_keys("sha256", ini["client"], 16)
    s = kdf.quic_keys("sha256", ini["server"], 16)
    assert c["key"].hex() == "1f369613dd76d5467730efcbe3b1a22d" and c["iv"].hex() == "fa044b2f42a3fd3b46fb255c"
    assert c["hp"].hex() == "9f50449e04a0e810283a1e9933adedd2"
    assert s["key"].hex() == "cf3a5331653c364c88f0f379b6067e37" and s["iv"].hex() == "0ac1493ca1905853b0bba03e"
    assert s["hp"].hex() == "c206b8d9b9f0f37644430b490eeaa314"
    # RFC 9001 Appendix A.5
    sec = bytes.fromhex("9ac312a7f877468ebe69422748ad00a15443f18203a07d6060f688f30f21632b")
    k = kdf.quic_keys("sha256", sec, 32)
    assert k["key"].hex() == "c6d98ff3441c3fe1b2182094f69caa2ed4b716b65488960a7a984979fb23e1c8"
    assert k["iv"].hex() == "e0459b3474bdd0e44a41c144"
    assert k["hp"].hex() == "25a282b9e82f06f21f488917a4fc8f1b73573685608597d0efcb076b0ab7a7a4"
    assert kdf.quic_next_secret("sha256", sec).hex() == "1223504755036d556342ee9361d253421a826c9ecdf3c7148684b36b714881f9"
    n += 11
    return {"kdf_cross_checks": n}


def live_anchor():
    from .model import live, opener, tls
    names = tls.table_suites()
    rng = random.Random(3)
    ok = 0
    records = 0
    skipped = []
    for v, c in live.LIVE_CLASSES:
        try:
            r = live.run(v, c, [("c", 100), ("s", 300), ("s", 0), ("c", 17), ("s", 20000), ("c", 1), ("c", 15), ("s", 16)],
                         lambda d, i, n: rng.randbytes(n))
        except live.LiveError as e:
            skipped.append(f"{v}/{c}: {e}")
            continue
        streams = {"c": b"".join(b for d, b in r["sends"] if d == "c"), "s": b"".join(b for d, b in r["sends"] if d == "s")}
        o = opener.open_connection(streams, r["keylog"], names)
        assert o["app"]["c"] == r["plain"]["c"] and o["app"]["s"] == r["plain"]["s"], f"model opened {v}/{c} to different data"
        ok += 1
        records += o["verified"]
    return {"live_openssl_connections_opened": ok, "live_records_verified": records, "live_skipped": skipped}


def read_capture(buf):
    """lenient pcapng reader: [(ts, frame)] of all EPBs"""
    out = []
    e = "<" if buf[8:12] == b"\x4d\x3c\x2b\x1a" else ">"
    pos = 0
    while pos + 12 <= len(buf):
        bt, bl = struct.unpack(e + "II", buf[pos:pos + 8])
        if bl < 12 or pos + bl > len(buf):
            break
        if bt == 6:
            cap_len = struct.unpack(e + "I", buf[pos + 20:pos + 24])[0]
            out.append(buf[pos + 28:pos + 28 + cap_len])
        pos += bl
    return out


def tcp_streams_of(frames):
    """{flow: {'c': bytes, 's': bytes}} reassembled in sequence order (real captures: in order, some retransmissions)"""
    from .model import net
    flows = {}
    for raw in frames:
        try:
            fr = net.parse_frame(raw, strict=False)
        except net.FrameError:
            continue
        if fr.proto != "tcp" or not fr.payload:
            continue
        k = fr.flow()
        fl = flows.setdefault(k, {"first": (fr.src_ip, fr.sport), "segs": {}})
        d = "c" if (fr.src_ip, fr.sport) == fl["first"] else "s"
        fl["segs"].setdefault(d, {}).setdefault(fr.seq, bytes(fr.payload))
    out = {}
    for k, fl in flows.items():
        st = {}
        for d in ("c", "s"):
            segs = sorted(fl["segs"].get(d, {}).items())
            data = b""
            nxt = None
            for seq, p in segs:
                if nxt is None or seq == nxt:
                    data += p
                    nxt = (seq + len(p)) & 0xFFFFFFFF
                elif seq < nxt:
                    continue
                else:
                    break
            st[d] = data
        out[k] = st
    return out


def repo_tls_anchor():
    from .model import opener, tls
    names = tls.table_suites()
    kl = [l.strip() for l in open(os.path.join(REPO, "test", "keylog.log")) if l.strip()]
    files = sorted(glob.glob(os.path.join(REPO, "test", "testfiles", "*.pcapng")) +
                   glob.glob(os.path.join(REPO, "test", "incomplete_pcaps", "*.pcapng")))
    opened, records, problems = 0, 0, []
    classes = set()
    for f in files:
        frames = read_capture(open(f, "rb").read())
        done = False
        for k, st in tcp_streams_of(frames).items():
            if not st["c"].startswith(b"\x16") or not st["s"].startswith(b"\x16"):
                continue
            try:
                o = opener.open_connection(st, kl, names)
            except opener.OpenError as e:
                problems.append(f"{os.path.basename(f)}: {e}")
                continue
            if o["verified"]:
                opened += 1
                records += o["verified"]
                classes.add((tls.VERSION_NAMES[o["version"]], names[o["suite"]], o["etm"]))
                done = True
        if not done:
            problems.append(f"{os.path.basename(f)}: no connection opened")
    return {"repo_tls_captures": len(files), "repo_tls_connections_opened": opened, "repo_tls_records_verified": records,
            "repo_tls_classes": sorted(f"{a}/{b}{'/etm' if c else ''}" for a, b, c in classes), "repo_tls_problems": problems}


def repo_quic_anchor():
    """opens Initial, Handshake and 1-RTT packets of the repository's QUIC captures with the model's keys"""
    from .model import quic, kdf, net
    from .model.rfc9000 import read_varint
    base = os.path.join(REPO, "tlexport", "pcaps_und_keylogs", "quic_pcaps")
    logs = {}
    for lf in glob.glob(os.path.join(base, "*.log")):
        for l in open(lf):
            p = l.split()
            if len(p) == 3:
                logs.setdefault(p[1].lower(), {})[p[0]] = bytes.fromhex(p[2])
    total = {"packets_opened": 0, "initial": 0, "handshake": 0, "onertt": 0, "files": 0, "suites": set()}
    for f in sorted(glob.glob(os.path.join(base, "*.pcapng"))):
        frames = read_capture(open(f, "rb").read())
        conns = {}     # client (ip,port) -> state
        for raw in frames:
            try:
                fr = net.parse_frame(raw, strict=False)
            except net.FrameError:
                continue
            if fr.proto != "udp" or not fr.payload or not fr.payload[0] & 0x40:
                continue
            data = bytes(fr.payload)
            while data:
                if data[0] & 0x80:
                    if len(data) < 7 or data[1:5] != quic.V1:
                        break
                    dl = data[5]
                    dcid = data[6:6 + dl]
                    sl = data[6 + dl]
                    scid = data[7 + dl:7 + dl + sl]
                    p = 7 + dl + sl
                    ptype = (data[0] >> 4) & 3
                    if ptype == 3:
                        break
                    if ptype == 0:
                        tl, p = read_varint(data, p)
                        p += tl
                    ln, p = read_varint(data, p)
                    pkt = data[:p + ln]
                    data = data[p + ln:]
                    ck = (fr.src_ip, fr.sport)
                    from_client = ck in conns or (fr.dst_ip, fr.dport) not in conns
                    if from_client and ck not in conns and ptype == 0:
                        conns[ck] = {"odcid": dcid, "ini": kdf.quic_initial_secrets(dcid), "largest": {}, "cr": None, "suite": None,
                                     "ccid": scid, "scid": None}
                    st = conns.get(ck) or conns.get((fr.dst_ip, fr.dport))
                    if st is None:
                        continue
                    d = "c" if ck in conns else "s"
                    if d == "s" and ptype == 0:
                        st["scid"] = scid
                    try:
                        if ptype == 0:
                            keys = quic.PKeys("sha256", 16, "gcm", st["ini"]["client" if d == "c" else "server"])
                        elif ptype == 2 and st["cr"] and st["suite"]:
                            h, kl, kind = quic.SUITES[st["suite"]]
                            sec = logs.get(st["cr"], {}).get(("CLIENT" if d == "c" else "SERVER") + "_HANDSHAKE_TRAFFIC_SECRET")
                            if sec is None:
                                continue
                            keys = quic.PKeys(h, kl, kind, sec)
                        else:
                            continue
                        pn, pt, _ = quic.unprotect(keys, pkt, p, True)
                    except Exception:
                        continue
                    total["packets_opened"] += 1
                    total["initial" if ptype == 0 else "handshake"] += 1
                    # find hello messages in CRYPTO frames (offset 0 only)
                    q = 0
                    while q < len(pt):
                        t = pt[q]
                        if t in (0, 1):
                            q += 1
                        elif t in (2, 3):
                            _, q2 = read_varint(pt, q + 1)
                            _, q2 = read_varint(pt, q2)
                            cnt, q2 = read_varint(pt, q2)
                            _, q2 = read_varint(pt, q2)
                            for _i in range(cnt * 2 + (3 if t == 3 else 0)):
                                _, q2 = read_varint(pt, q2)
                            q = q2
                        elif t == 6:
                            off, q2 = read_varint(pt, q + 1)
                            ln2, q2 = read_varint(pt, q2)
                            body = pt[q2:q2 + ln2]
                            if off == 0 and body[:1] == b"\x01" and st["cr"] is None:
                                st["cr"] = body[6:38].hex()
                            if off == 0 and body[:1] == b"\x02":
                                sidl = body[38]
                                st["suite"] = struct.unpack("!H", body[39 + sidl:41 + sidl])[0]
                                total["suites"].add(st["suite"])
                            q = q2 + ln2
                        else:
                            break
                else:
                    # short header: try every connection's CIDs
                    for ck, st in conns.items():
                        if not (st["cr"] and st["suite"] in quic.SUITES):
                            continue
                        d = "c" if (fr.src_ip, fr.sport) == ck else "s"
                        cid = st["scid"] if d == "c" else st["ccid"]
                        if cid is None or data[1:1 + len(cid)] != cid:
                            continue
                        h, kl, kind = quic.SUITES[st["suite"]]
                        sec = logs.get(st["cr"], {}).get(("CLIENT" if d == "c" else "SERVER") + "_TRAFFIC_SECRET_0")
                        if sec is None:
                            continue
                        try:
                            pn, pt, _ = quic.unprotect(quic.PKeys(h, kl, kind, sec), data, 1 + len(cid), False,
                                                       st["largest"].get(d, -1))
                        except Exception:
                            continue
                        st["largest"][d] = max(st["largest"].get(d, -1), pn)
                        total["packets_opened"] += 1
                        total["onertt"] += 1
                        break
                    data = b""
        total["files"] += 1
    total["suites"] = sorted(f"{s:#06x}" for s in total["suites"])
    return {"repo_quic_" + k: v for k, v in total.items()}


def main():
    res = {}
    for fn in (kdf_cross, live_anchor, repo_tls_anchor, repo_quic_anchor):
        res.update(fn())
    os.makedirs(os.path.join(VERIF, ".state"), exist_ok=True)
    with open(os.path.join(VERIF, ".state", "validation.json"), "w") as f:
        json.dump(res, f, indent=1)
    print(json.dumps(res, indent=1))
    assert res["live_openssl_connections_opened"] >= 10
    assert res["repo_tls_connections_opened"] >= 20
    assert res["repo_quic_packets_opened"] >= 10


if __name__ == "__main__":
    main()
