import os
import sys
import argparse
import importlib


def main():
    ap = argparse.ArgumentParser()
    ap.add_argument("prop")
    ap.add_argument("--tier", default=os.environ.get("VERIF_TIER", "quick"), choices=["quick", "thorough"])
    ap.add_argument("--replay")
    a = ap.parse_args()
    seed = int(os.environ.get("VERIF_SEED", "0") or 0)
    from . import engine
    mod = importlib.import_module("mc.checks." + a.prop.lower())
    rc = engine.run_check(mod, a.tier, seed, replay=a.replay)
    sys.stdout.flush()
    sys.exit(rc)


if __name__ == "__main__":
    main()
