"""setup: nothing to build (pure Python run from source); verifies the toolchain"""
import sys


def main():
    from . import harness
    m = harness.load()
    import dpkt, scapy, cryptography  # noqa
    print("setup ok: tlexport from", m.__file__)


if __name__ == "__main__":
    main()
