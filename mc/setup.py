"""setup: nothing to build (pure Python run from source).  Verifies the toolchain and anchors the
reference models on real traffic (mc/validate.py); the result is stored in .state/validation.json and
summarised into the evidence files."""
import sys


def main():
    from . import harness
    m = harness.load()
    import dpkt, scapy, cryptography  # noqa
    print("setup: tlexport from", m.__file__)
    from . import validate
    validate.main()
    print("setup ok")


if __name__ == "__main__":
    main()
