"""shared scenario helpers for the e2e checks"""
from fractions import Fraction
import random
import hashlib
from .model import tls, cap, pcapio, net, iana
from . import harness

_names = None


def suite_name(code):
    """IANA name of a code point from the registry copies (never from TLExport)"""
    global _names
    if _names is None:
        _names = tls.table_suites()
    return _names[code]


def rng_for(seed, *key):
    h = hashlib.sha256(repr((seed,) + key).encode()).digest()
    return random.Random(int.from_bytes(h[:8], "big"))


def tls_conn(scn, seed, key=()):
    rng = rng_for(seed, "tls", tuple(sorted((k, str(v)) for k, v in scn.items())), key)
    return tls.Connection(scn, rng, suite_name(scn.get("suite", tls.DEFAULT["suite"])))


def tls_sends(conn):
    return [(d, b"".join(r.raw for r in recs)) for d, recs in conn.sends]


def merged_sends(sends):
    """consecutive sends of one direction become one write, so that records share segments however they are cut"""
    out = []
    for d, b in sends:
        if out and out[-1][0] == d:
            out[-1] = (d, out[-1][1] + b)
        else:
            out.append((d, b))
    return out


def tls_packets(conn, conn_id=0, merged=False, **kw):
    sends = tls_sends(conn)
    return cap.tcp_packets(conn_id, merged_sends(sends) if merged else sends, **kw)


def record_ranges(conn):
    """[(dir, start, end, Rec)] byte ranges of every record in its direction's stream"""
    off = {"c": 0, "s": 0}
    out = []
    for d, recs in conn.sends:
        for r in recs:
            out.append((d, off[d], off[d] + len(r.raw), r))
            off[d] += len(r.raw)
    return out


def run(pkts, keylog_lines, args=(), **kw):
    # microsecond container unless an instant needs nanoseconds
    fine = any((Fraction(p.ts) * 10 ** 6).denominator != 1 for p in pkts)
    data = cap.pcapng(pkts, tsresol=9) if fine else cap.pcapng(pkts)
    kl = None if keylog_lines is None else "\n".join(keylog_lines) + "\n"
    return harness.run_tlexport(data, kl, args, **kw)


class ExportError(Exception):
    def __init__(self, kind, detail=""):
        super().__init__(kind + ": " + detail)
        self.kind = kind
        self.detail = detail


def analyse(res):
    """strict analysis of a Result; raises ExportError with a failure kind"""
    if not res.ok:
        raise ExportError("run_failed", res.status + " " + res.detail[-400:])
    if res.out is None:
        raise ExportError("no_output_file")
    try:
        return pcapio.analyse(res.out)
    except (pcapio.PcapngError, net.FrameError) as e:
        raise ExportError("malformed_output", f"{type(e).__name__}: {e}")


def tcp_streams(an, ends, server_port=None):
    """(c2s, s2c) exported for the connection with these endpoints, or (b'', b'') if absent;
    the exported server port may be mapped"""
    for c in an["tcp"].values():
        if c["client"] == ends.client.key() and c["server"][0] == ends.server.ip and \
                (server_port is None or c["server"][1] == server_port):
            return c
    return None


def compare_tls(an, ends, conn, server_port=None):
    """None or (kind, detail): exported streams must equal the application data sent"""
    c = tcp_streams(an, ends, server_port)
    want_c, want_s = conn.plain["c"], conn.plain["s"]
    if c is None:
        if not want_c and not want_s:
            return None
        return "nothing_exported", f"expected {len(want_c)}+{len(want_s)} bytes"
    for name, got, want in (("c2s", c["c2s"], want_c), ("s2c", c["s2c"], want_s)):
        if got != want:
            i = next((k for k in range(min(len(got), len(want))) if got[k] != want[k]), min(len(got), len(want)))
            kind = "stream_mismatch"
            if want.startswith(got):
                kind = "stream_truncated"
            elif got.startswith(want):
                kind = "stream_extra_bytes"
            return kind, f"{name}: exported {len(got)} bytes, sent {len(want)}, first difference at {i}"
    return None


def digest(b):
    return hashlib.sha256(b or b"").hexdigest()[:12]


# ---- QUIC ----------------------------------------------------------------------------------------
from .model import quic as _quic  # noqa


def quic_conn(scn, seed, key=()):
    rng = rng_for(seed, "quic", tuple(sorted((k, str(v)) for k, v in scn.items())), key)
    return _quic.Conn(scn, rng)


def quic_packets(conn, conn_id=0):
    return cap.udp_packets(conn_id, [(g.dir, g.data, g.tag) for g in conn.dgrams])


def udp_export(an, ends, server_port=None):
    """[(dir, payload, ts)] of the non-empty datagrams exported for this connection"""
    out = []
    for k, lst in an["udp"].items():
        for ts, src, dst, payload, fr in lst:
            if src == ends.client.key() and dst[0] == ends.server.ip and (server_port is None or dst[1] == server_port):
                d = "c"
            elif dst == ends.client.key() and src[0] == ends.server.ip and (server_port is None or src[1] == server_port):
                d = "s"
            else:
                continue
            if payload:
                out.append((d, bytes(payload), ts))
    return out


def compare_quic(an, ends, conn, server_port=None):
    got = [(d, p) for d, p, _ in udp_export(an, ends, server_port)]
    want = conn.truth()
    if got == want:
        return None
    if not got:
        return "nothing_exported", f"expected {len(want)} datagrams"
    if len(got) != len(want):
        kind = "datagram_count"
        if got == want[:len(got)]:
            kind = "datagrams_missing_at_end"
        return kind, f"exported {len(got)} non-empty datagrams, {len(want)} carried stream data: " \
                     f"got {[(d, len(p)) for d, p in got][:12]} want {[(d, len(p)) for d, p in want][:12]}"
    for i, (g, w) in enumerate(zip(got, want)):
        if g != w:
            return ("datagram_direction" if g[1] == w[1] else "datagram_payload"), \
                   f"datagram {i}: got ({g[0]},{len(g[1])}B) want ({w[0]},{len(w[1])}B)"
    return "mismatch", ""


# ---- multi-flow captures -----------------------------------------------------------------------------

class Flow:
    """one modelled connection placed in a capture"""

    def __init__(self, kind, conn, ends, conn_id, pkts):
        self.kind, self.conn, self.ends, self.id, self.pkts = kind, conn, ends, conn_id, pkts

    def keylog(self):
        return list(self.conn.keylog)


def first_app_packet(conn, pkts):
    """index of the first packet that carries (part of) an application-data record: before it the order of the two
    directions is fixed by the handshake's causality"""
    rr = [(d, s_, e) for d, s_, e, r in record_ranges(conn) if r.kind == "app"]
    for i, p in enumerate(pkts):
        if p.payload and any(d == p.dir and p.start < e and p.end > s_ for d, s_, e in rr):
            return i
    return len(pkts)


def duplex_interleave(pkts, start=0):
    """full-duplex capture order: wherever two consecutive data segments of one direction are followed (later) by a data
    packet of the other direction, that packet is captured BETWEEN the two segments (each direction keeps its own order).
    Applied to alternate opportunities; returns a new list."""
    pk = list(pkts)
    i, flip = start, 0
    while i < len(pk) - 2:
        a, b = pk[i], pk[i + 1]
        if a.payload and b.payload and a.dir == b.dir:
            j = next((k for k in range(i + 2, len(pk)) if pk[k].payload and pk[k].dir != a.dir), None)
            # only move it if nothing of its own direction lies in between (order per direction is kept)
            if j is not None and not any(pk[k].payload and pk[k].dir == pk[j].dir for k in range(i + 2, j)):
                flip += 1
                if flip % 2:
                    pk.insert(i + 1, pk.pop(j))
                    i += 3
                    continue
        i += 1
    return pk


def tls_flow(scn, seed, idx, v6=False, server_port=443, key=(), **kw):
    """kw: mss, merged, handshake, isn, cutter (see cap.tcp_packets / tls_packets)"""
    conn = tls_conn(scn, seed, key=("flow", idx) + tuple(key))
    ends = cap.Ends(idx, v6=v6, server_port=server_port)
    return Flow("tls", conn, ends, idx, tls_packets(conn, conn_id=idx, **kw))


def quic_flow(scn, seed, idx, v6=False, server_port=443, key=()):
    conn = quic_conn(scn, seed, key=("flow", idx) + tuple(key))
    ends = cap.Ends(idx, v6=v6, server_port=server_port)
    return Flow("quic", conn, ends, idx, quic_packets(conn, conn_id=idx))


def round_robin(lists):
    out = []
    its = [list(l) for l in lists]
    while any(its):
        for l in its:
            if l:
                out.append(l.pop(0))
    return out


def flow_export(an, flow, server_port=None):
    """canonical description of what the output holds for one flow (frames + timestamps)"""
    if flow.kind == "tls":
        c = tcp_streams(an, flow.ends, server_port)
        if c is None:
            return None
        return ("tcp", c["c2s"], c["s2c"], tuple((ts, d, p) for ts, d, p, _ in c["data"]), tuple(c["hs_ts"]))
    ex = udp_export(an, flow.ends, server_port)
    return ("udp", tuple(ex)) if ex else None


def flow_raw_packets(an, flow):
    """every output packet (timestamp, raw frame) that belongs to the flow's endpoints, for byte-identity checks"""
    ck = flow.ends.client.key()
    sip = flow.ends.server.ip
    out = []
    for ts, fr in an["packets"]:
        a, b = (fr.src_ip, fr.sport), (fr.dst_ip, fr.dport)
        if (a == ck and b[0] == sip) or (b == ck and a[0] == sip):
            out.append((ts, fr.raw))
    return out
