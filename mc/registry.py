"""Per-property registration data; tools/gen_manifest.py turns it into MANIFEST.json.
A property appears in CHECKS only once its check module exists and is silent on the
unchanged tree."""

CHECKS = {
    "C14": {
        "category": "exploration",
        "text": "Exhaustive: all 65 536 code points go through the real split_cipher_suite; accepted ones are compared "
                "with two independent registry copies (+10 RFC-cited entries) and with the parameters an independent "
                "tokenising parser derives from the registered name. The input space is finite and fully enumerated, "
                "so this is a complete decision for the resolver as it stands.",
        "design_ref": "DESIGN.md section 5, C14",
        "note": "trusted: dpkt/scapy registry copies, the 10-entry supplement in mc/model/iana.py, the name grammar of "
                "parse_name (cross-checked against OpenSSL's cipher list)",
        "technique": "exhaustive enumeration of the whole input domain (65 536 code points) against a reference model",
    },
    "C16": {
        "category": "model_checking",
        "text": "Window-boundary product on the real QuicSession.get_full_packet_number (all truncated values for 1- and "
                "2-byte encodings at every boundary largest value up to 2^62, +-3 neighbourhoods for 3/4 bytes, every "
                "(space, direction) slot with the others holding foreign values) plus an explicit-state BFS to fixpoint "
                "over packet histories with gaps and reordering whose state is the set of largest-packet-number slots; "
                "oracle is RFC 9000 A.3 in integer arithmetic; every BFS state is re-derived on a fresh object.",
        "design_ref": "DESIGN.md section 5, C16",
        "note": "trusted: the A.3 transcription in mc/model/rfc9000.py; state injection assumes the function reads only the "
                "packet_number_* dictionaries (validated by path replay of every BFS state)",
        "technique": "exhaustive boundary product + explicit-state BFS over the real method with path-replay conformance",
    },
    "C17": {
        "category": "model_checking",
        "text": "Depth-bounded exhaustive operation sequences: every sequence of well-formed frames (all RFC 9000/9221 types, "
                "varint widths 1/2/4/8, all STREAM flag combinations) to depth 2 (full alphabet) / 3 (reduced) is parsed by "
                "the real parse_frames and compared with the encoder's ground truth; every byte string up to length 4 over a "
                "40-symbol alphabet (thorough: length 3 over all bytes) is parsed under a watchdog for termination and "
                "checked for invented data.",
        "design_ref": "DESIGN.md section 5, C17",
        "note": "trusted: the frame encoder mc/model/quicframes.py; byte strings longer than the bound are not covered",
        "technique": "exhaustive enumeration of frame sequences and of all short byte strings against an encoder model",
    },
    "C01": {
        "category": "model_checking",
        "text": "Depth-bounded exhaustive operation sequences on the real Session/Decryptor/OutputBuilder through run() (plus the same "
                "histories spoken by two live OpenSSL endpoints, and the repository's 30 real captures against the anchored receiver model): "
                "every table suite x valid version (x encrypt-then-MAC, x TLS 1.3 handshake secrets present/absent) with a "
                "history touching every stateful mechanism; per cipher-state class every application-record history up to "
                "depth 3 (thorough 4) over {client,server} x {0,1,block boundary,300}; handshake shapes within 2 deviations "
                "of the default (incl. 0.5-RTT server data, record padding, tickets); segmentations, full-duplex capture orders x IPv4/IPv6. Oracle: the reassembled output streams equal what the modelled "
                "peer sent. The cipher state per direction is a function of the whole history, so only exhaustive "
                "histories (not single records) decide it.",
        "design_ref": "DESIGN.md section 5, C01",
        "note": "trusted: the peer model mc/model/tls.py + kdf.py (anchored on real captures / live OpenSSL by mc/validate.py), "
                "our pcapng reader; data bytes come from VERIF_SEED (not enumerated); histories longer than the bound and "
                "handshake messages fragmented across records are not covered",
        "technique": "bounded exhaustive enumeration of record histories / suites / handshake shapes against a reference peer model",
    },
    "C02": {
        "category": "model_checking",
        "text": "Every QUIC v1 connection within 2 deviations of the default over ~110 alternatives (4 suites, offered order, CID "
                "lengths 0/1/8/20, packet-number length/start/gaps, coalescing partitions, 13 frame types before/after STREAM, "
                "several STREAM frames/streams, all STREAM flag combinations, ClientHello split over 2-3 CRYPTO frames in every "
                "order, Retry, 0-RTT, NEW_CONNECTION_ID switch incl. equal IDs, IPv6, non-monotonic timestamps), every frame sequence of length <=2 around the STREAM frame, "
                "and every packet history (<=8 packets, 3 generations) of an explicit-state model of the RFC 9001 key-update "
                "protocol, each rendered by the peer model and run through the real program. Oracle: datagram list equality.",
        "design_ref": "DESIGN.md section 5, C02",
        "note": "trusted: the QUIC peer model mc/model/quic.py (anchored on RFC 9001 Appendix A vectors and the repository's "
                "captures), our pcapng reader; only v1, only conformant histories; data bytes from VERIF_SEED",
        "technique": "deviation-bounded exhaustive enumeration + explicit-state protocol model whose every trace is replayed on the implementation",
    },
    "C15": {
        "category": "exploration",
        "text": "Structurally exhaustive: every table suite x every valid version (TLS), every initial DCID length 0..20 x 4 "
                "suites x key-update generations 0..3 x early secret present/absent x Retry (QUIC); a modelled handshake goes "
                "through run() and the key material installed in the real Decryptor / QuicSession objects is compared with an "
                "independent hashlib/hmac implementation of the RFC key schedules. Data (secrets, randoms, CIDs) are 3 draws "
                "per structural case.",
        "design_ref": "DESIGN.md section 5, C15",
        "note": "trusted: mc/model/kdf.py (cross-checked by mc/validate.py); the data dimension is sampled, not enumerated "
                "(exhaustive:false) - the KDF code has no data-dependent control flow",
        "technique": "exhaustive enumeration of the structural space (suite x version x lengths x generations) against an independent KDF",
    },
    "C05": {
        "category": "model_checking",
        "text": "Explicit-state search of the arrival-event graph of the real Session reassembler (a recording stub replaces the "
                "record handler): every cut set of short record streams in order; for every segmentation with few segments a BFS "
                "over 'deliver any undelivered segment' / 'deliver an exact duplicate' / 'next packet of the other direction' "
                "with canonical state hashing, asserting in every terminal state that exactly the true records were released once "
                "and in order, and in every other state that the released records are a prefix; initial sequence numbers that "
                "put the 2^32 wrap on every byte; plus an end-to-end layer with real decryption per version class "
                "(segmentations, duplicates, transpositions, displacements, wrapping ISNs).",
        "design_ref": "DESIGN.md section 5, C05",
        "note": "trusted: the state canonicalisation argument (the reassembler is a fold over accepted packets; validated by an "
                "unmerged re-run in the thorough tier); retransmissions are exact duplicates; one open known finding "
                "(first data segment of a direction displaced)",
        "technique": "explicit-state BFS over arrival schedules on the real object with state hashing; exhaustive cut sets",
    },
    "C03": {
        "category": "fault_enumeration",
        "text": "Every single fault of every family (delete any packet, truncate/start the victim at any packet, every subset of "
                "its key-log lines, randomised secrets, unsupported ServerHello suites, bit flips / overwrites / truncations at "
                "enumerated byte positions of every packet, every TLS record header field set to boundary values, plain HTTP on 443, injected UDP "
                "datagrams: all strings <=3 over 11 symbols, every first byte, and structured QUIC long headers of every type / version / "
                "connection-ID shape, with and without -a, next to an ordinary and a zero-length-ID bystander) applied to each of 10 victim classes captured together with a healthy TLS and a "
                "healthy QUIC bystander. Oracle: no abort, strict-valid output, bystanders byte-identical to the fault-free run, "
                "victim export a prefix (QUIC: in-order subsequence) for information-removing faults.",
        "design_ref": "DESIGN.md section 5, C03",
        "note": "trusted: peer models, strict reader; single faults only (no fault pairs); byte positions are strided in the quick "
                "tier and complete in the thorough tier; bystanders are one TLS 1.2 GCM and one QUIC AES-GCM flow",
        "technique": "exhaustive single-fault enumeration at every position against a fault-free differential baseline",
    },
    "C04": {
        "category": "model_checking",
        "text": "Context-bounded schedule exploration (CHESS-style) where a thread is one connection's packet list and the "
                "scheduler is the capture order: for all pairs of 8 connection kinds (TLS 1.2/1.3/1.0-CBC/SSL3-RC4, QUIC GCM/ChaCha/split ClientHello/large packet numbers) under 10 "
                "endpoint relations (same hosts, two servers, 443/44330, v4/v6 incl. numerically equal addresses, crossed hosts, resumed session, a port "
                "number in two roles, TCP to a QUIC port) and 9 connection-ID relations for QUIC pairs (distinct, zero-length, prefix, equal) every "
                "order-preserving merge with <=3 context switches (thorough <=5 and all merges for minimal pairs), triples and a "
                "4-set with unrelated DNS/HTTP traffic, and key-log line permutations. Differential oracle: each flow's output "
                "packets in the merged run equal those of the capture filtered to that connection.",
        "design_ref": "DESIGN.md section 5, C04",
        "note": "trusted: peer models, strict reader; schedules beyond the context-switch bound are not covered except for "
                "minimal pairs in the thorough tier; connections use distinct 4-tuples",
        "technique": "iterative context-bounded schedule enumeration with a differential (solo-run) oracle",
    },
    "C06": {
        "category": "exploration",
        "text": "The real OutputBuilder is driven with every (record length n in 0..40, carrying packets k in 1..8) pair and every "
                "sequence of (direction, n, k) records to depth 2 (thorough 3) over n in {0,1,2,3,7,8,9,1460,16384}, k in "
                "{1,2,3,4,9}, IPv4 and IPv6; the whole program is run over the product of option sets (-m, -a, -c, -p, -g) x 9 "
                "capture kinds (decryptable, keyless, unknown QUIC version, HTTP on 443, junk UDP, empty, mixed). Every result is "
                "parsed by a strict independent pcapng/Ethernet/IP/TCP/UDP reader that recomputes all lengths and checksums and "
                "replays sequence/ack bookkeeping.",
        "design_ref": "DESIGN.md section 5, C06",
        "note": "trusted: the strict reader (mc/model/pcapio.py, net.py); 'a standard reassembler' is our own in-order reassembler",
        "technique": "bounded exhaustive enumeration of builder histories and option products, judged by an independent strict parser",
    },
    "C11": {
        "category": "fault_enumeration",
        "text": "Exhaustive sum sweep on the real checksum routines: for IPv4/IPv6 x TCP/UDP x even/odd length x base payloads a "
                "16-bit word takes all 65 536 values (every carry/fold boundary, sums of exactly 0x10000, checksums 0x0000/0xffff), "
                "each packet with the correct checksum and with wrong values (also with link-layer trailers, IPv4 options, IPv6 extension headers), against an independent RFC 1071 receiver test; every data segment damaged and followed by its intact retransmission; and "
                "all 256 subsets of 8 designated packets of a TLS+QUIC capture corrupted, comparing export(-c) with "
                "export(without -c) of the capture with those packets removed.",
        "design_ref": "DESIGN.md section 5, C11",
        "note": "trusted: RFC 1071 implementation in mc/model/net.py; UDP checksum 0 (not computed) and alternative zero "
                "representations are outside the dichotomy and not generated",
        "technique": "exhaustive enumeration of the 16-bit sum domain + all corruption subsets with a differential oracle",
    },
    "C10": {
        "category": "exploration",
        "text": "Exhaustive product of the declared configuration alphabet: 7 -p lists x 14 -m variants (absent, bare, pairs, "
                "trailing commas, full map, identity pairs, pairs naming a client port, ports 1 and 65535) on a capture with TLS and QUIC connections to 8 server ports at once, two of them from one client endpoint; the exported "
                "server port, the unchanged client port and the presence/absence of every flow are compared with the documented "
                "port function.",
        "design_ref": "DESIGN.md section 5, C10",
        "note": "trusted: the documented function as read from README.md and the option help texts; QUIC on unselected ports is "
                "exported by design (only the mapping rule is asserted there)",
        "technique": "exhaustive product over a declared configuration alphabet against the documented function",
    },
    "C09": {
        "category": "exploration",
        "text": "Deviation-bounded exhaustive enumeration (k<=2) of key-delivery variants for five base captures (TLS 1.2, TLS 1.3, QUIC, two TLS, two QUIC connections one after the other), little- and big-endian container: every line "
                "permutation, CRLF / missing final newline, comment / blank / unrelated / duplicate lines at every position, four "
                "hex-case variants, and every delivery (file, DSB at every packet position, every split over 2-3 DSBs, additional "
                "empty DSB, DSB in front of the interface block, one DSB per connection right before it, every file/DSB split, DSB only without -s from three working directories, re-run through the real "
                "command line). Oracle: the output file is byte-identical to the base variant's.",
        "design_ref": "DESIGN.md section 5, C09",
        "note": "trusted: our pcapng writer for DSBs; variants beyond two simultaneous deviations are not covered",
        "technique": "deviation-bounded (k<=2) exhaustive enumeration with a byte-identity oracle",
    },
    "C12": {
        "category": "exploration",
        "text": "Deviation-bounded exhaustive enumeration (k<=2) of container variants for five base captures (one with snap-cut packets): legacy pcap LE/BE/"
                "nanosecond with -l, big-endian pcapng, 7 if_tsresol values (powers of 10 and of 2), if_tsoffset values in both option orders, blocks in front of the interface block, 6 kinds "
                "of unrelated block inserted at every position, option sets on SHB/IDB/EPB - all written by our own writer so that "
                "every variant denotes exactly the same instants. Oracle: byte-identical output.",
        "design_ref": "DESIGN.md section 5, C12",
        "note": "trusted: our pcapng/pcap writer (mc/model/pcapio.py); instants are multiples of 1/8 s so all resolutions are exact",
        "technique": "deviation-bounded (k<=2) exhaustive enumeration with a byte-identity oracle",
    },
    "C18": {
        "category": "exploration",
        "text": "Fresh-process runs of the real command line for 19 scenarios (QUIC with zero-length, prefix-related and "
                "NEW_CONNECTION_ID-issued connection IDs, two QUIC connections, a duplicated Initial, a Version Negotiation datagram, TLS incl. "
                "retransmissions, a damaged CBC record, damaged copies with wrong checksums, nine connections, a non-ASCII ALPN name, mixed): one run per iteration order of the "
                "connection-ID set that any PYTHONHASHSEED in the scanned range realises (witness seeds), x 3 working directories x "
                "9 environments (incl. PYTHONOPTIMIZE, non-UTF-8 stdout) x stale output files, with and without -a; and all ordered pairs run(A);run(B) (with and without -a, "
                "A possibly a run that aborts, and pairs whose two runs use different options) in one interpreter "
                "without state restoration, compared with a fresh run(B) (fresh process where options differ). Oracle: equal sha256 / equal bytes.",
        "design_ref": "DESIGN.md section 5, C18",
        "note": "trusted: the claim that set iteration order of connection IDs is the only hash-seed dependent seam (argued from the "
                "source: no other set/dict-order dependent iteration); orders not realised by any scanned seed are not covered",
        "technique": "exhaustive enumeration of induced iteration orders (witness hash seeds), environments and run pairs",
    },
    "C07": {
        "category": "exploration",
        "text": "For 43 cipher-state classes x IPv4/IPv6 x segment sizes, displaced / merged / full-duplex captures (four connections per capture, two of them between the same IPs over other MACs, distinct ports, "
                "awkward sub-second timestamps) every payload-carrying output packet is attributed to its TLS record through the "
                "model's byte ranges and must carry the addresses of its connection oriented sender->receiver and the timestamp of "
                "an input packet overlapping that record (with -a: added handshake/alert material must travel in its sender's direction); QUIC default + every 1-deviation scenario (incl. nanosecond-close instants) likewise per datagram; and all "
                "10^6 microsecond values x 6 second values go through the real Reader->float->Writer timestamp path.",
        "design_ref": "DESIGN.md section 5, C07",
        "note": "trusted: the peer models' record/packet byte-range map; layer M drives Reader and Writer as run() does",
        "technique": "bounded exhaustive enumeration with a model-derived provenance oracle; exhaustive microsecond domain sweep",
    },
    "C08": {
        "category": "fault_enumeration",
        "text": "All crash points of each history: for 72 TLS captures (9 classes x 8 packetisations incl. records spanning segments, "
                "coalesced flights, a displaced segment, retransmissions, sequence numbers wrapping inside the data) and 8 QUIC captures (coalescing, key updates, 0-RTT, Retry, "
                "two flows, NAT rebinding) the program is run on EVERY prefix 0..N; per connection and direction the export of prefix i must be a "
                "prefix of the export of prefix i+1 and of the modelled plaintext; the empty capture must give a valid empty file. "
                "C05's state graphs assert the same clause in every non-terminal state.",
        "design_ref": "DESIGN.md section 5, C08",
        "note": "trusted: peer models; cuts are prefixes of the packet list (not mid-packet truncations of the file)",
        "technique": "exhaustive enumeration of all cut positions (crash points) with a prefix-chain oracle",
    },
    "C13": {
        "category": "exploration",
        "text": "Every table suite x valid version (x EtM, x TLS 1.3 handshake secrets) ended by closing alerts (per class also by a heartbeat record), full-duplex and "
                "merged-segment captures per cipher-state class, every handshake shape within one deviation "
                "for 9 classes, and QUIC default + every 1-deviation scenario are run with and without -a: the (direction, payload) "
                "sequence without -a must be a subsequence of the one with -a, what -a adds must not be a piece of an application or other-type record, "
                "ClientHello/ServerHello records must appear verbatim as packets of their own, and for QUIC every piece of stream data must still appear in order.",
        "design_ref": "DESIGN.md section 5, C13",
        "note": "trusted: peer models; two-deviation shapes are not paired with -a",
        "technique": "exhaustive product (scenario corpus x option) with a subsequence oracle",
    },
}

NOT_YET = "check not built yet in this round (planned: bounded exhaustive exploration, see DESIGN.md section 5)"
