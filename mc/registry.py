"""Per-property registration data; tools/gen_manifest.py turns it into MANIFEST.json.
A property appears in CHECKS only once its check module exists and is silent on the
unchanged tree."""

CHECKS = {
    "C14": {
        "category": "exploration",
        "text": "Exhaustive: all 65 536 code points go through the real split_cipher_suite; accepted ones are compared "
                "with two independent registry copies (+10 RFC-cited entries) and with the parameters an independent "
                "tokenising parser derives from the registered name. The input space is finite and fully enumerated, "
                "so this is a complete decision for the resolver as it stands.",
        "design_ref": "DESIGN.md section 5, C14",
        "note": "trusted: dpkt/scapy registry copies, the 10-entry supplement in mc/model/iana.py, the name grammar of "
                "parse_name (cross-checked against OpenSSL's cipher list)",
        "technique": "exhaustive enumeration of the whole input domain (65 536 code points) against a reference model",
    },
}

NOT_YET = "check not built yet in this round (planned: bounded exhaustive exploration, see DESIGN.md section 5)"
