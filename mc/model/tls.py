"""TLS peer model (SSL 3.0 - TLS 1.3): plays both endpoints of a connection and therefore
knows the ground truth.  Written from RFC 6101, 2246, 4346, 5246, 7366, 7905, 6655, 8446.
Shares no code with TLExport.  Record protection has both directions (protect / open with
MAC or tag verification) so the model can be anchored on real captures (mc/validate.py)."""
import hmac
import struct
import hashlib
import warnings

with warnings.catch_warnings():
    warnings.simplefilter("ignore")
    from cryptography.hazmat.primitives.ciphers import Cipher, modes
    from cryptography.hazmat.primitives.ciphers import algorithms as alg
    from cryptography.hazmat.primitives.ciphers.aead import AESGCM, AESCCM, ChaCha20Poly1305
    try:
        from cryptography.hazmat.decrepit.ciphers import algorithms as dalg
    except Exception:  # pragma: no cover
        dalg = alg

from . import kdf, iana

SSL30, TLS10, TLS11, TLS12, TLS13 = 0x0300, 0x0301, 0x0302, 0x0303, 0x0304
VERSION_NAMES = {SSL30: "SSL3.0", TLS10: "TLS1.0", TLS11: "TLS1.1", TLS12: "TLS1.2", TLS13: "TLS1.3"}

CT_CCS, CT_ALERT, CT_HS, CT_APP = 20, 21, 22, 23


def _algo(cipher, key):
    with warnings.catch_warnings():
        warnings.simplefilter("ignore")
        if cipher == "AES":
            return alg.AES(key)
        if cipher == "CAMELLIA":
            return getattr(dalg, "Camellia", getattr(alg, "Camellia", None))(key)
        if cipher == "3DES":
            return getattr(dalg, "TripleDES", getattr(alg, "TripleDES", None))(key)
        if cipher == "IDEA":
            return getattr(dalg, "IDEA", getattr(alg, "IDEA", None))(key)
        if cipher == "RC4":
            return getattr(dalg, "ARC4", getattr(alg, "ARC4", None))(key)
    raise ValueError(cipher)


def suite_valid_for(sp: iana.SuiteParams, version: int) -> bool:
    """which (suite, version) pairs the protocol allows"""
    if sp.tls13:
        return version == TLS13
    if version == TLS13:
        return False
    if sp.aead:
        return version == TLS12
    if sp.mac in ("sha256", "sha384"):
        return version == TLS12           # RFC 5246: the SHA-2 MAC suites are TLS 1.2 only
    if sp.cipher == "IDEA":
        return version <= TLS11           # RFC 5469
    return True


class CipherState:
    """one direction of record protection"""

    def __init__(self, version, sp, key, mac_key, iv, etm=False, rng=None):
        self.version = version
        self.sp = sp
        self.key = key
        self.mac_key = mac_key
        self.iv = iv                     # implicit CBC IV (SSL3/TLS1.0), AEAD fixed IV, TLS1.3 iv
        self.etm = etm and sp.mode == "CBC"
        self.seq = 0
        self.rng = rng
        if sp.mode == "STREAM":
            c = Cipher(_algo("RC4", key), mode=None)
            self._rc4 = c.encryptor()      # RC4 is symmetric: the same keystream opens records
        if sp.mode == "GCM":
            self._aead = AESGCM(key)
        elif sp.mode == "CCM":
            self._aead = AESCCM(key, tag_length=sp.tag_len)
        elif sp.mode == "CHACHA":
            self._aead = ChaCha20Poly1305(key)

    # ---- MAC --------------------------------------------------------------------------
    def _mac(self, seq, ctype, rec_version, data):
        h = self.sp.mac
        if self.version == SSL30:
            pad = 48 if h == "md5" else 40
            inner = hashlib.new(h, self.mac_key + b"\x36" * pad + struct.pack("!QBH", seq, ctype, len(data)) + data).digest()
            return hashlib.new(h, self.mac_key + b"\x5c" * pad + inner).digest()
        return hmac.new(self.mac_key, struct.pack("!QBHH", seq, ctype, rec_version, len(data)) + data, h).digest()

    def _cbc(self, iv, encrypt):
        c = Cipher(_algo(self.sp.cipher, self.key), modes.CBC(iv))
        return c.encryptor() if encrypt else c.decryptor()

    # ---- protect ------------------------------------------------------------------------
    def protect(self, ctype, data, rec_version=None, pad13=0, pad_blocks=0, outer13=True, first_byte=None):
        """first_byte: where the sender chooses the first byte of the protected fragment (explicit CBC IV of TLS 1.1/1.2,
        explicit AEAD nonce of TLS 1.2 GCM/CCM) it is set to this value"""
        """returns the complete record (header + protected fragment)"""
        v = self.version
        rv = rec_version if rec_version is not None else (TLS12 if v == TLS13 else v)
        sp = self.sp
        seq = self.seq
        self.seq += 1
        if v == TLS13:
            inner = data + bytes([ctype]) + b"\x00" * pad13
            hdr = struct.pack("!BHH", CT_APP, TLS12, len(inner) + sp.tag_len)
            nonce = bytes(a ^ b for a, b in zip(self.iv, b"\x00" * 4 + struct.pack("!Q", seq)))
            return hdr + self._aead.encrypt(nonce, inner, hdr)
        if sp.mode == "STREAM":
            frag = self._rc4.update(data + self._mac(seq, ctype, rv, data))
        elif sp.mode == "CBC":
            bs = sp.block
            if v >= TLS11:
                iv = self.rng.randbytes(bs)
                if first_byte is not None:
                    iv = bytes([first_byte]) + iv[1:]
                prefix = iv
            else:
                iv = self.iv
                prefix = b""
            if self.etm:
                body = data
            else:
                body = data + self._mac(seq, ctype, rv, data)
            padlen = bs - (len(body) + 1) % bs
            if padlen == bs:
                padlen = 0
            if v != SSL30:
                padlen += bs * pad_blocks
            if v == SSL30:
                padding = self.rng.randbytes(padlen) + bytes([padlen])   # SSL 3.0: padding content arbitrary
            else:
                padding = bytes([padlen]) * (padlen + 1)
            ct = self._cbc(iv, True).update(body + padding)
            if v < TLS11:
                self.iv = ct[-bs:]
            frag = prefix + ct
            if self.etm:
                frag += self._mac(seq, ctype, rv, frag)
        elif sp.mode in ("GCM", "CCM"):
            # RFC 5288 section 3 / RFC 6655: the 8-byte explicit part is the sender's choice, it only has to be unique per key -
            # the sequence number (OpenSSL), a counter started anywhere, or random bytes
            pol = getattr(self, "nonce_policy", "seq")
            if pol == "random":
                explicit = self.rng.randbytes(8)
            elif pol == "from1":
                explicit = struct.pack("!Q", seq + 1)
            elif pol == "high":
                explicit = struct.pack("!Q", (0xFEDCBA9876543210 + seq) & 0xFFFFFFFFFFFFFFFF)
            else:
                explicit = struct.pack("!Q", seq)
            if first_byte is not None:
                explicit = bytes([first_byte]) + explicit[1:]       # RFC 5288: the explicit part is the sender's choice
            aad = struct.pack("!QBHH", seq, ctype, rv, len(data))
            frag = explicit + self._aead.encrypt(self.iv + explicit, data, aad)
        elif sp.mode == "CHACHA":
            aad = struct.pack("!QBHH", seq, ctype, rv, len(data))
            nonce = bytes(a ^ b for a, b in zip(self.iv, b"\x00" * 4 + struct.pack("!Q", seq)))
            frag = self._aead.encrypt(nonce, data, aad)
        else:
            raise ValueError(sp.mode)
        return struct.pack("!BHH", ctype, rv, len(frag)) + frag

    # ---- open (receiver side, verifies MAC / tag; raises ValueError) ------------------------
    def open(self, record: bytes):
        ctype, rv, ln = struct.unpack("!BHH", record[:5])
        frag = record[5:5 + ln]
        v = self.version
        sp = self.sp
        seq = self.seq
        if v == TLS13:
            nonce = bytes(a ^ b for a, b in zip(self.iv, b"\x00" * 4 + struct.pack("!Q", seq)))
            try:
                inner = self._aead.decrypt(nonce, frag, record[:5])
            except Exception:
                raise ValueError("bad tag")
            self.seq += 1
            inner = inner.rstrip(b"\x00")
            return inner[-1], inner[:-1]
        if sp.mode == "STREAM":
            pt = self._rc4.update(frag)
            ml = iana.hash_len(sp.mac)
            data, mac = pt[:-ml], pt[-ml:]
            if not hmac.compare_digest(mac, self._mac(seq, ctype, rv, data)):
                raise ValueError("bad MAC")
        elif sp.mode == "CBC":
            bs = sp.block
            ml = iana.hash_len(sp.mac)
            body = frag
            if self.etm:
                body, mac = frag[:-ml], frag[-ml:]
                want = self._mac(seq, ctype, rv, body)
                if not hmac.compare_digest(mac, want):
                    raise ValueError("bad MAC (EtM)")
            if v >= TLS11:
                iv, ct = body[:bs], body[bs:]
            else:
                iv, ct = self.iv, body
                self.iv = ct[-bs:]
            pt = self._cbc(iv, False).update(ct)
            padlen = pt[-1]
            if v != SSL30 and pt[-(padlen + 1):] != bytes([padlen]) * (padlen + 1):
                raise ValueError("bad padding")
            pt = pt[:-(padlen + 1)]
            if self.etm:
                data = pt
            else:
                data, mac = pt[:-ml], pt[-ml:]
                if not hmac.compare_digest(mac, self._mac(seq, ctype, rv, data)):
                    raise ValueError("bad MAC")
        elif sp.mode in ("GCM", "CCM"):
            explicit, ct = frag[:8], frag[8:]
            aad = struct.pack("!QBHH", seq, ctype, rv, len(ct) - sp.tag_len)
            try:
                data = self._aead.decrypt(self.iv + explicit, ct, aad)
            except Exception:
                raise ValueError("bad tag")
        else:
            aad = struct.pack("!QBHH", seq, ctype, rv, len(frag) - 16)
            nonce = bytes(a ^ b for a, b in zip(self.iv, b"\x00" * 4 + struct.pack("!Q", seq)))
            try:
                data = self._aead.decrypt(nonce, frag, aad)
            except Exception:
                raise ValueError("bad tag")
        self.seq += 1
        return ctype, data


def key_material(version, sp, master, client_random, server_random):
    """(client CipherState args, server CipherState args) for SSL3..TLS1.2"""
    if sp.aead:
        mac_len, iv_len = 0, sp.fixed_iv
    else:
        mac_len = iana.hash_len(sp.mac)
        iv_len = sp.block if (sp.mode == "CBC" and version <= TLS10) else 0
    return kdf.partition(version, master, client_random, server_random, mac_len, sp.key_len, iv_len, sp.prf)


# ---- handshake messages ---------------------------------------------------------------------------

def hs_msg(t, body):
    return bytes([t]) + len(body).to_bytes(3, "big") + body


def ext(t, body):
    return struct.pack("!HH", t, len(body)) + body


def client_hello_exts(kind, version, etm, rng):
    sni = ext(0, struct.pack("!HBH", 14, 0, 11) + b"example.com")
    groups = ext(10, b"\x00\x04\x00\x1d\x00\x17")
    pf = ext(11, b"\x01\x00")
    sig = ext(13, b"\x00\x04\x04\x03\x08\x04")
    alpn = ext(16, b"\x00\x09\x08http/1.1")
    ems = ext(23, b"")
    etm_e = ext(22, b"")
    reneg = ext(0xFF01, b"\x00")
    ticket = ext(35, b"")
    sv = ext(43, b"\x04\x03\x04\x03\x03")
    ks = ext(51, struct.pack("!HHH", 36, 0x1d, 32) + rng.randbytes(32))
    psk = ext(45, b"\x01\x01")
    base = []
    if kind == "none":
        base = []
    elif kind == "ems":
        base = [ems]
    elif kind == "many":
        base = [sni, groups, pf, sig, alpn, ems, reneg, ticket] + [ext(0x1000 + i, rng.randbytes(i)) for i in range(12)]
    elif kind == "unknown":
        base = [ext(0xABCD, b"\x01\x02\x03"), ext(0xFAFA, b"")]
    else:
        base = [sni, groups, pf, sig, alpn, ems, reneg, ticket]
    if etm:
        base.append(etm_e)
    if version == TLS13:
        base += [sv, ks, psk]
    return base


def server_hello_exts(kind, version, etm, rng):
    ems = ext(23, b"")
    reneg = ext(0xFF01, b"\x00")
    alpn = ext(16, b"\x00\x09\x08http/1.1")
    sv = ext(43, b"\x03\x04")
    ks = ext(51, struct.pack("!HH", 0x1d, 32) + rng.randbytes(32))
    if version == TLS13:
        if kind == "sv_last":
            return [ks, sv]
        if kind == "unknown":
            return [ext(0xABCD, b"\x07"), sv, ks]
        if kind == "many":
            return [sv, ks] + [ext(0x1000 + i, rng.randbytes(i)) for i in range(6)]
        return [sv, ks]
    base = []
    if kind == "none":
        base = []
    elif kind == "ems":
        base = [ems]
    elif kind == "many":
        base = [reneg, ems, alpn, ext(11, b"\x01\x00"), ext(35, b"")] + [ext(0x1000 + i, rng.randbytes(i)) for i in range(12)]
    elif kind == "unknown":
        base = [ext(0xABCD, b"\x01\x02\x03"), ext(0xFAFA, b"")]
    else:
        base = [reneg, ems, alpn]
    if etm:
        base.append(ext(22, b""))
    return base


class Rec:
    __slots__ = ("dir", "raw", "kind", "plain")

    def __init__(self, d, raw, kind, plain=None):
        self.dir = d          # 'c' or 's'
        self.raw = raw
        self.kind = kind      # 'hs' 'ccs' 'app' 'hs_enc' 'ticket' 'alert'
        self.plain = plain

    def __repr__(self):
        return f"<{self.dir} {self.kind} {len(self.raw)}>"


DEFAULT = {
    "version": TLS12, "suite": 0xC02F, "etm": False, "hs_secrets": True, "sid_len": 32, "exts": "typical",
    "abbreviated": False, "server_group": "one_each", "client_group": "one_each", "ccs13": True, "pad13": 0, "pad13_hs": 0,
    "tickets": 0, "ticket_pos": "before", "enc_flight_split": None, "offered": None, "keylog_label": "CLIENT_RANDOM",
    "history": [("c", 100), ("s", 300)], "pad_blocks": 0, "sflight_records": None, "early_s": 0, "fin_first_byte": None, "master": None, "explicit_nonce": None, "close_alerts": None, "trailing_other": None,
}


class Connection:
    """a complete modelled connection: .sends (list of (dir, [Rec...]) - each send is written to TCP
    at once), .keylog (list of lines), .plain {'c': bytes, 's': bytes}, .records"""

    def __init__(self, scn: dict, rng, suite_name: str):
        s = dict(DEFAULT)
        s.update(scn)
        self.scn = s
        self.rng = rng
        self.version = v = s["version"]
        self.sp = iana.parse_name(suite_name)
        self.suite = s["suite"]
        self.client_random = rng.randbytes(32)
        self.server_random = rng.randbytes(32)
        self.session_id = rng.randbytes(s["sid_len"])
        self.sends = []
        self.keylog = []
        self.app = {"c": [], "s": []}
        if v == TLS13:
            self._build13()
        else:
            self._build_legacy()
        self.records = [r for _, rs in self.sends for r in rs]
        self.plain = {"c": b"".join(self.app["c"]), "s": b"".join(self.app["s"])}

    # -- helpers
    def _plain_record(self, ctype, data, rv):
        return struct.pack("!BHH", ctype, rv, len(data)) + data

    def _client_hello(self):
        s = self.scn
        v = self.version
        legacy = TLS12 if v == TLS13 else v
        offered = s["offered"] or [self.suite, 0x00FF]
        suites = b"".join(struct.pack("!H", c) for c in offered)
        body = struct.pack("!H", legacy) + self.client_random + bytes([len(self.session_id)]) + self.session_id
        body += struct.pack("!H", len(suites)) + suites + b"\x01\x00"
        if v != SSL30:
            exts = b"".join(client_hello_exts(s["exts"], v, s["etm"], self.rng))
            if exts or v == TLS13:
                body += struct.pack("!H", len(exts)) + exts
        elif s["etm"]:
            exts = ext(0xFF01, b"\x00") + ext(22, b"")
            body += struct.pack("!H", len(exts)) + exts
        return hs_msg(1, body)

    def _server_hello(self):
        s = self.scn
        v = self.version
        legacy = TLS12 if v == TLS13 else v
        body = struct.pack("!H", legacy) + self.server_random + bytes([len(self.session_id)]) + self.session_id
        body += struct.pack("!H", s.get("wire_suite") or self.suite) + b"\x00"
        if v != SSL30:
            exts = b"".join(server_hello_exts(s["exts"], v, s["etm"], self.rng))
            if exts or v == TLS13 or s["exts"] == "empty_block":
                body += struct.pack("!H", len(exts)) + exts
        elif s["etm"]:
            exts = ext(0xFF01, b"\x00") + ext(22, b"")
            body += struct.pack("!H", len(exts)) + exts
        return hs_msg(2, body)

    def _app_payload(self, d, n):
        return self.rng.randbytes(n)

    # -- SSL 3.0 .. TLS 1.2
    def _build_legacy(self):
        s = self.scn
        v = self.version
        sp = self.sp
        rng = self.rng
        master = s["master"] or rng.randbytes(48)
        self.master = master
        if s["keylog_label"] == "CLIENT_RANDOM":
            self.keylog.append(f"CLIENT_RANDOM {self.client_random.hex()} {master.hex()}")
        km = key_material(v, sp, master, self.client_random, self.server_random)
        self.km = km
        etm = s["etm"]
        cw = CipherState(v, sp, km["client_key"], km["client_mac"], km["client_iv"], etm, rng)
        sw = CipherState(v, sp, km["server_key"], km["server_mac"], km["server_iv"], etm, rng)
        self.cw, self.sw = cw, sw
        cw.nonce_policy = sw.nonce_policy = s.get("explicit_nonce") or "seq"
        rv_first = SSL30 if v == SSL30 else TLS10
        fin_len = 36 if v == SSL30 else 12

        def plain_recs(d, msgs, grouping, rv):
            """grouping: 'one_each' | 'all_in_one' | tuple of group sizes"""
            if grouping == "one_each":
                groups = [[m] for m in msgs]
            elif grouping == "all_in_one":
                groups = [msgs]
            else:
                groups, i = [], 0
                for g in grouping:
                    groups.append(msgs[i:i + g])
                    i += g
                if i < len(msgs):
                    groups.append(msgs[i:])
            return [Rec(d, self._plain_record(CT_HS, b"".join(g), rv), "hs") for g in groups if g]

        ch = Rec("c", self._plain_record(CT_HS, self._client_hello(), rv_first), "hs")
        self.client_hello_rec = ch
        self.sends.append(("c", [ch]))
        sh = self._server_hello()
        if s["abbreviated"]:
            srecs = plain_recs("s", [sh], "one_each", v)
            self.server_hello_rec = srecs[0]
            srecs.append(Rec("s", self._plain_record(CT_CCS, b"\x01", v), "ccs"))
            srecs.append(Rec("s", sw.protect(CT_HS, hs_msg(20, rng.randbytes(fin_len)), first_byte=s["fin_first_byte"]), "hs_enc"))
            self.sends.append(("s", srecs))
            crecs = [Rec("c", self._plain_record(CT_CCS, b"\x01", v), "ccs"),
                     Rec("c", cw.protect(CT_HS, hs_msg(20, rng.randbytes(fin_len)), first_byte=s["fin_first_byte"]), "hs_enc")]
            self.sends.append(("c", crecs))
        else:
            msgs = [sh, hs_msg(11, b"\x00\x01\x2c\x00\x01\x29" + rng.randbytes(297)),
                    hs_msg(12, rng.randbytes(140)), hs_msg(14, b"")]
            srecs = plain_recs("s", msgs, s["server_group"], v)
            self.server_hello_rec = srecs[0]
            self.sends.append(("s", srecs))
            crecs = plain_recs("c", [hs_msg(16, rng.randbytes(66))], "one_each", v)
            crecs.append(Rec("c", self._plain_record(CT_CCS, b"\x01", v), "ccs"))
            crecs.append(Rec("c", cw.protect(CT_HS, hs_msg(20, rng.randbytes(fin_len)), first_byte=s["fin_first_byte"]), "hs_enc"))
            if s["client_group"] == "one_each":
                for r in crecs:
                    self.sends.append(("c", [r]))
            else:
                self.sends.append(("c", crecs))
            srecs = []
            if s["tickets"]:
                srecs.append(Rec("s", self._plain_record(CT_HS, hs_msg(4, rng.randbytes(180)), v), "hs"))
            srecs.append(Rec("s", self._plain_record(CT_CCS, b"\x01", v), "ccs"))
            srecs.append(Rec("s", sw.protect(CT_HS, hs_msg(20, rng.randbytes(fin_len)), first_byte=s["fin_first_byte"]), "hs_enc"))
            self.sends.append(("s", srecs))
        for d, n in s["history"]:
            w = cw if d == "c" else sw
            if n == "hello_request":
                # an encrypted handshake record that is no Finished: HelloRequest (RFC 5246 7.4.1.1; the peer may ignore it)
                self.sends.append((d, [Rec(d, w.protect(CT_HS, hs_msg(0, b"")), "hs_enc")]))
                continue
            data = self._app_payload(d, n)
            self.app[d].append(data)
            self.sends.append((d, [Rec(d, w.protect(CT_APP, data, pad_blocks=s["pad_blocks"]), "app", data)]))
        for d in (s.get("trailing_other") or ()):
            # a record of another content type (heartbeat, RFC 6520) as the last record of its direction
            w = cw if d == "c" else sw
            self.sends.append((d, [Rec(d, w.protect(24, b"\x01\x00\x04ping" + rng.randbytes(16)), "other", None)]))
        for d in (s.get("close_alerts") or ()):
            # closing alerts at the very end (close_notify from the first closer, the peer's answer): no data follows
            w = cw if d == "c" else sw
            body = b"\x01\x00"
            self.sends.append((d, [Rec(d, w.protect(CT_ALERT, body), "alert", None)]))

    # -- TLS 1.3
    def _build13(self):
        s = self.scn
        sp = self.sp
        rng = self.rng
        hl = iana.hash_len(sp.prf)
        sec = {k: rng.randbytes(hl) for k in ("chs", "shs", "cap", "sap", "exp")}
        self.secrets = sec
        cr = self.client_random.hex()
        if s["hs_secrets"]:
            self.keylog.append(f"SERVER_HANDSHAKE_TRAFFIC_SECRET {cr} {sec['shs'].hex()}")
            self.keylog.append(f"CLIENT_HANDSHAKE_TRAFFIC_SECRET {cr} {sec['chs'].hex()}")
        self.keylog.append(f"EXPORTER_SECRET {cr} {sec['exp'].hex()}")
        self.keylog.append(f"SERVER_TRAFFIC_SECRET_0 {cr} {sec['sap'].hex()}")
        self.keylog.append(f"CLIENT_TRAFFIC_SECRET_0 {cr} {sec['cap'].hex()}")

        def st(secret):
            k = kdf.tls13_traffic_keys(sp.prf, secret, sp.key_len)
            return CipherState(TLS13, sp, k["key"], None, k["iv"], False, rng)
        chs, shs, cap, sap = st(sec["chs"]), st(sec["shs"]), st(sec["cap"]), st(sec["sap"])
        self.km = {"chs": chs, "shs": shs, "cap": cap, "sap": sap}
        ch = Rec("c", self._plain_record(CT_HS, self._client_hello(), TLS10), "hs")
        self.client_hello_rec = ch
        self.sends.append(("c", [ch]))
        sh = Rec("s", self._plain_record(CT_HS, self._server_hello(), TLS12), "hs")
        self.server_hello_rec = sh
        srecs = [sh]
        if s["ccs13"]:
            srecs.append(Rec("s", self._plain_record(CT_CCS, b"\x01", TLS12), "ccs"))
        msgs = [hs_msg(8, b"\x00\x00"), hs_msg(11, b"\x00\x00\x01\x30" + rng.randbytes(304)),
                hs_msg(15, b"\x08\x04\x00\x40" + rng.randbytes(64)), hs_msg(20, rng.randbytes(hl))]
        split = s["enc_flight_split"]           # tuple of group sizes or None (= one record with all four)
        if split is None:
            groups = [msgs]
        else:
            groups, i = [], 0
            for g in split:
                groups.append(msgs[i:i + g])
                i += g
            if i < len(msgs):
                groups.append(msgs[i:])
        for g in groups:
            srecs.append(Rec("s", shs.protect(CT_HS, b"".join(g), pad13=s["pad13_hs"]), "hs_enc"))
        self.sends.append(("s", srecs))
        # 0.5-RTT data: the server may send application data right after its Finished, before the client's Finished
        for i in range(s["early_s"]):
            data = self._app_payload("s", 40 + 7 * i)
            self.app["s"].append(data)
            self.sends.append(("s", [Rec("s", sap.protect(CT_APP, data, pad13=s["pad13"]), "app", data)]))
        crecs = []
        if s["ccs13"]:
            crecs.append(Rec("c", self._plain_record(CT_CCS, b"\x01", TLS12), "ccs"))
        crecs.append(Rec("c", chs.protect(CT_HS, hs_msg(20, rng.randbytes(hl)), pad13=s["pad13_hs"]), "hs_enc"))
        self.sends.append(("c", crecs))

        def ticket():
            body = struct.pack("!II", 7200, 1) + b"\x08" + rng.randbytes(8) + struct.pack("!H", 160) + rng.randbytes(160) + b"\x00\x00"
            self.sends.append(("s", [Rec("s", sap.protect(CT_HS, hs_msg(4, body), pad13=s["pad13_hs"]), "ticket")]))

        nt = s["tickets"]
        hist = list(s["history"])
        if s["ticket_pos"] == "before":
            for _ in range(nt):
                ticket()
        for i, (d, n) in enumerate(hist):
            if s["ticket_pos"] == "between" and i == 1:
                for _ in range(nt):
                    ticket()
            data = self._app_payload(d, n)
            w = cap if d == "c" else sap
            self.app[d].append(data)
            self.sends.append((d, [Rec(d, w.protect(CT_APP, data, pad13=s["pad13"]), "app", data)]))
        if s["ticket_pos"] == "after" or (s["ticket_pos"] == "between" and len(hist) < 2):
            for _ in range(nt):
                ticket()
        for d in (s.get("trailing_other") or ()):
            w = cap if d == "c" else sap
            self.sends.append((d, [Rec(d, w.protect(24, b"\x01\x00\x04ping" + rng.randbytes(16), pad13=s["pad13"]), "other", None)]))
        for d in (s.get("close_alerts") or ()):
            w = cap if d == "c" else sap
            self.sends.append((d, [Rec(d, w.protect(CT_ALERT, b"\x01\x00", pad13=s["pad13"]), "alert", None)]))


def table_suites():
    """the (code, name) pairs of TLExport's table as registered by IANA - taken from the registry
    copies, not from TLExport, restricted to names our parser understands"""
    a, b = iana.registry_copies()
    out = {}
    for code in set(a) | set(b) | set(iana.SUPPLEMENT):
        name = iana.SUPPLEMENT.get(code) or a.get(code) or b.get(code)
        try:
            iana.parse_name(name)
        except Exception:
            continue
        out[code] = name
    return out
