"""RFC 9000 helpers written from the RFC text: variable-length integers (section 16) and
the packet-number decoding algorithm of Appendix A.3, in integer arithmetic."""


def varint(v: int, length: int = None) -> bytes:
    """encode v; `length` (1,2,4,8) forces a possibly non-minimal encoding"""
    if length is None:
        length = 1 if v < 1 << 6 else 2 if v < 1 << 14 else 4 if v < 1 << 30 else 8
    bits = {1: 0, 2: 1, 4: 2, 8: 3}[length]
    if v >= 1 << (8 * length - 2):
        raise ValueError("value does not fit")
    return ((bits << (8 * length - 2)) | v).to_bytes(length, "big")


def read_varint(buf: bytes, pos: int = 0):
    first = buf[pos]
    length = 1 << (first >> 6)
    if pos + length > len(buf):
        raise IndexError("truncated varint")
    v = first & 0x3F
    for i in range(1, length):
        v = (v << 8) | buf[pos + i]
    return v, pos + length


def decode_packet_number(largest_pn: int, truncated_pn: int, pn_nbits: int) -> int:
    """RFC 9000 Appendix A.3 verbatim"""
    expected_pn = largest_pn + 1
    pn_win = 1 << pn_nbits
    pn_hwin = pn_win // 2
    pn_mask = pn_win - 1
    candidate_pn = (expected_pn & ~pn_mask) | truncated_pn
    if candidate_pn <= expected_pn - pn_hwin and candidate_pn < (1 << 62) - pn_win:
        return candidate_pn + pn_win
    if candidate_pn > expected_pn + pn_hwin and candidate_pn >= pn_win:
        return candidate_pn - pn_win
    return candidate_pn
