"""QUIC v1 peer model written from RFC 9000 (packet formats, section 17), RFC 9001 (packet
protection section 5, key update section 6, Retry integrity 5.8) and RFC 8446 (handshake
messages).  Plays both endpoints and records the ground truth (which datagram carried which
stream data).  Shares no code with TLExport."""
import struct
import warnings

with warnings.catch_warnings():
    warnings.simplefilter("ignore")
    from cryptography.hazmat.primitives.ciphers import Cipher, modes
    from cryptography.hazmat.primitives.ciphers import algorithms as alg
    from cryptography.hazmat.primitives.ciphers.aead import AESGCM, AESCCM, ChaCha20Poly1305

from . import kdf
from .rfc9000 import varint
from . import quicframes as qf

SUITES = {0x1301: ("sha256", 16, "gcm"), 0x1302: ("sha384", 32, "gcm"), 0x1303: ("sha256", 32, "chacha"),
          0x1304: ("sha256", 16, "ccm")}
SUITE_NAMES = {0x1301: "AES128-GCM", 0x1302: "AES256-GCM", 0x1303: "CHACHA20", 0x1304: "AES128-CCM"}
V1 = b"\x00\x00\x00\x01"


class PKeys:
    """packet protection keys of one direction in one epoch"""

    def __init__(self, hname, key_len, kind, secret):
        self.hname, self.key_len, self.kind, self.secret = hname, key_len, kind, secret
        k = kdf.quic_keys(hname, secret, key_len)
        self.key, self.iv, self.hp = k["key"], k["iv"], k["hp"]
        if kind == "gcm":
            self.aead = AESGCM(self.key)
        elif kind == "ccm":
            self.aead = AESCCM(self.key, tag_length=16)
        else:
            self.aead = ChaCha20Poly1305(self.key)

    def next_generation(self):
        """RFC 9001 6.1: new secret, key and iv; the header protection key is not updated"""
        n = PKeys(self.hname, self.key_len, self.kind, kdf.quic_next_secret(self.hname, self.secret))
        n.hp = self.hp
        return n

    def mask(self, sample):
        if self.kind == "chacha":
            c = Cipher(alg.ChaCha20(self.hp, sample), mode=None).encryptor()
            return c.update(b"\x00" * 5)
        c = Cipher(alg.AES(self.hp), modes.ECB()).encryptor()
        return c.update(sample)[:5]


def protect(keys: PKeys, header: bytes, pn: int, pn_len: int, payload: bytes, long: bool) -> bytes:
    """header = everything before the packet number; returns the protected packet"""
    pn_bytes = (pn & ((1 << (8 * pn_len)) - 1)).to_bytes(pn_len, "big")
    first = header[0] | (pn_len - 1)
    hdr = bytes([first]) + header[1:] + pn_bytes
    nonce = bytes(a ^ b for a, b in zip(keys.iv, pn.to_bytes(12, "big")))
    ct = keys.aead.encrypt(nonce, payload, hdr)
    sample = (pn_bytes + ct)[4:20]
    assert len(sample) == 16, "packet too short for header protection sample"
    m = keys.mask(sample)
    first ^= m[0] & (0x0F if long else 0x1F)
    pn_prot = bytes(a ^ b for a, b in zip(pn_bytes, m[1:1 + pn_len]))
    return bytes([first]) + header[1:] + pn_prot + ct


def pad_min(payload: bytes, pn_len: int) -> bytes:
    """RFC 9001 5.4.2: at least 4 bytes of packet number + plaintext; PADDING goes first so that a
    LEN-less final frame is not disturbed"""
    need = 4 - pn_len - len(payload)
    if need > 0:
        return b"\x00" * need + payload
    return payload


RETRY_KEY = bytes.fromhex("be0c690b9f66575a1d766b54e368c84e")
RETRY_NONCE = bytes.fromhex("461599d35d632bf2239825bb")


def retry_packet(odcid, dcid, scid, token):
    pkt = bytes([0xF0]) + V1 + bytes([len(dcid)]) + dcid + bytes([len(scid)]) + scid + token
    pseudo = bytes([len(odcid)]) + odcid + pkt
    tag = AESGCM(RETRY_KEY).encrypt(RETRY_NONCE, b"", pseudo)
    return pkt + tag


# ---- TLS messages carried in CRYPTO frames --------------------------------------------------

def hs_msg(t, body):
    return bytes([t]) + len(body).to_bytes(3, "big") + body


def ext(t, body):
    return struct.pack("!HH", t, len(body)) + body


def client_hello(rng, client_random, offered, grease_quic_bit=False, sid=b"", alpn=(b"h3",)):
    suites = b"".join(struct.pack("!H", c) for c in offered)
    tp = b"\x01\x02\x67\x10" + b"\x04\x04\x80\x10\x00\x00" + b"\x0f\x00"
    if grease_quic_bit:
        tp += b"\x6a\xb2\x00"
    exts = [ext(0, struct.pack("!HBH", 14, 0, 11) + b"example.com"), ext(10, b"\x00\x04\x00\x1d\x00\x17"),
            ext(16, (lambda l: struct.pack("!H", len(l)) + l)(b"".join(bytes([len(a)]) + a for a in alpn))), ext(13, b"\x00\x04\x04\x03\x08\x04"),
            ext(51, struct.pack("!HHH", 36, 0x1d, 32) + rng.randbytes(32)), ext(45, b"\x01\x01"),
            ext(43, b"\x02\x03\x04"), ext(57, tp)]
    e = b"".join(exts)
    body = b"\x03\x03" + client_random + bytes([len(sid)]) + sid + struct.pack("!H", len(suites)) + suites + b"\x01\x00"
    body += struct.pack("!H", len(e)) + e
    return hs_msg(1, body)


def server_hello(rng, server_random, suite, sid=b""):
    e = ext(43, b"\x03\x04") + ext(51, struct.pack("!HH", 0x1d, 32) + rng.randbytes(32))
    body = b"\x03\x03" + server_random + bytes([len(sid)]) + sid + struct.pack("!H", suite) + b"\x00" + struct.pack("!H", len(e)) + e
    return hs_msg(2, body)


def server_flight(rng, hlen):
    tp = b"\x01\x02\x67\x10" + b"\x00\x08" + rng.randbytes(8)
    ee = ext(16, b"\x00\x03\x02h3") + ext(57, tp)
    return (hs_msg(8, struct.pack("!H", len(ee)) + ee) + hs_msg(11, b"\x00\x00\x01\x30" + rng.randbytes(304)) +
            hs_msg(15, b"\x08\x04\x00\x40" + rng.randbytes(64)) + hs_msg(20, rng.randbytes(hlen)))


class Dgram:
    __slots__ = ("dir", "data", "stream", "tag", "pkts")

    def __init__(self, d, data, stream, tag, pkts):
        self.dir = d
        self.data = data
        self.stream = stream      # concatenated STREAM frame data carried (ground truth), b"" if none
        self.tag = tag
        self.pkts = pkts          # description of the packets inside

    def __repr__(self):
        return f"<dgram {self.dir} {len(self.data)}B stream={len(self.stream)} {self.tag}>"


DEFAULT = {
    "suite": 0x1301, "offered": None, "ccid_len": 8, "scid_len": 8, "odcid_len": 8,
    "pn_len": 2, "pn_start": 0, "pn_gap": 1, "coalesce": "separate", "retry": False, "zero_rtt": False,
    "ch_split": None, "ncid": None, "grease": False, "token": b"", "retry_token_len": None, "alpn": None, "vn": False, "ch_ack_between": False,
    "script": [("c", [(0, 100)]), ("s", [(0, 300)]), ("c", [(4, 50)]), ("s", [(0, 20)])],
    "before": (), "after": (), "stream_flags": None, "early_secret_in_log": None, "sh_split": None, "tail": None,
}


class Conn:
    """a modelled QUIC v1 connection.  .dgrams: list of Dgram in send order; .keylog: lines"""

    def __init__(self, scn, rng):
        s = dict(DEFAULT)
        s.update(scn)
        self.scn = s
        self.rng = rng
        self.suite = s["suite"]
        self.hname, self.key_len, self.kind = SUITES[self.suite]
        hl = 48 if self.hname == "sha384" else 32
        self.client_random = rng.randbytes(32)
        self.server_random = rng.randbytes(32)
        self.odcid = rng.randbytes(s["odcid_len"])
        self.ccid = rng.randbytes(s["ccid_len"])       # client's source connection id
        self.scid = rng.randbytes(s["scid_len"])       # server's source connection id
        if s.get("ccid_bytes") is not None:
            self.ccid = s["ccid_bytes"]
        if s.get("scid_bytes") is not None:
            self.scid = s["scid_bytes"]
        if s.get("odcid_bytes") is not None:
            self.odcid = s["odcid_bytes"]
        self.secrets = {k: rng.randbytes(hl) for k in ("chs", "shs", "cap", "sap", "early")}
        cr = self.client_random.hex()
        self.keylog = [f"SERVER_HANDSHAKE_TRAFFIC_SECRET {cr} {self.secrets['shs'].hex()}",
                       f"CLIENT_HANDSHAKE_TRAFFIC_SECRET {cr} {self.secrets['chs'].hex()}",
                       f"SERVER_TRAFFIC_SECRET_0 {cr} {self.secrets['sap'].hex()}",
                       f"CLIENT_TRAFFIC_SECRET_0 {cr} {self.secrets['cap'].hex()}"]
        want_early = s["early_secret_in_log"] if s["early_secret_in_log"] is not None else s["zero_rtt"]
        if want_early:
            self.keylog.insert(0, f"CLIENT_EARLY_TRAFFIC_SECRET {cr} {self.secrets['early'].hex()}")
        mk = lambda sec: PKeys(self.hname, self.key_len, self.kind, sec)   # noqa
        self.keys = {("hs", "c"): mk(self.secrets["chs"]), ("hs", "s"): mk(self.secrets["shs"]),
                     ("early", "c"): mk(self.secrets["early"])}
        self.app = {"c": [mk(self.secrets["cap"])], "s": [mk(self.secrets["sap"])]}     # generations
        self.set_initial_keys(self.odcid)
        self.pn = {}
        self.dgrams = []
        self.dcid_for = {"c": self.odcid, "s": self.ccid}   # destination cid used by each sender
        self.token = s["token"]
        self.hl = hl
        if s.get("standard", True):
            self.standard()

    def set_initial_keys(self, dcid):
        ini = kdf.quic_initial_secrets(dcid)
        self.keys[("ini", "c")] = PKeys("sha256", 16, "gcm", ini["client"])
        self.keys[("ini", "s")] = PKeys("sha256", 16, "gcm", ini["server"])

    # ---- packet builders -------------------------------------------------------------------------
    def next_pn(self, space, d, explicit=None):
        k = (space, d)
        if explicit is not None:
            self.pn[k] = explicit
            return explicit
        if k not in self.pn:
            self.pn[k] = self.scn["pn_start"]
        else:
            self.pn[k] += self.scn["pn_gap"]
        return self.pn[k]

    def long_pkt(self, ptype, d, payload, pn=None, pn_len=None):
        space = {0: "ini", 1: "app", 2: "hs"}[ptype]
        kspace = {0: "ini", 1: "early", 2: "hs"}[ptype]
        pn = self.next_pn(space, d, pn)
        pn_len = pn_len or self.scn["pn_len"]
        payload = pad_min(payload, pn_len)
        dcid = self.dcid_for[d]
        scid = self.ccid if d == "c" else self.scid
        hdr = bytes([0xC0 | (ptype << 4)]) + V1 + bytes([len(dcid)]) + dcid + bytes([len(scid)]) + scid
        if ptype == 0:
            tok = self.token if d == "c" else b""
            hdr += varint(len(tok)) + tok
        hdr += varint(pn_len + len(payload) + 16, 2)
        return protect(self.keys[(kspace, d)], hdr, pn, pn_len, payload, True)

    def short_pkt(self, d, payload, gen=0, pn=None, pn_len=None, dcid=None):
        pn = self.next_pn("app", d, pn)
        pn_len = pn_len or self.scn["pn_len"]
        payload = pad_min(payload, pn_len)
        while len(self.app[d]) <= gen:
            self.app[d].append(self.app[d][-1].next_generation())
        dcid = self.dcid_for[d] if dcid is None else dcid
        hdr = bytes([0x40 | ((gen & 1) << 2)]) + dcid
        return protect(self.app[d][gen], hdr, pn, pn_len, payload, False)

    def dgram(self, d, pkts, stream=b"", tag=""):
        self.dgrams.append(Dgram(d, b"".join(pkts), stream, tag, len(pkts)))

    def stream_frames(self, specs, flags=None):
        """specs: list of (stream_id, length) -> (frame bytes, concatenated data).  Frames carry LEN
        except optionally the last one."""
        out, data = b"", b""
        for i, spec in enumerate(specs):
            sid, n = spec[0], spec[1]
            d = self.rng.randbytes(n)
            fl = flags or {}
            last = i == len(specs) - 1
            ln = fl.get("len", True) or not last
            b, _ = qf.stream(sid, d, offset=fl.get("offset", 0), off=fl.get("off", False), ln=ln, fin=fl.get("fin", False))
            out += b
            data += d
        return out, data

    # ---- the standard connection ----------------------------------------------------------------------
    def standard(self):
        s = self.scn
        rng = self.rng
        offered = s["offered"] or [self.suite, 0x1302 if self.suite != 0x1302 else 0x1301]
        ch = client_hello(rng, self.client_random, offered, s["grease"], alpn=tuple(s.get("alpn") or (b"h3",)))
        sh = server_hello(rng, self.server_random, s.get("wire_suite") or self.suite)
        sf = server_flight(rng, self.hl)
        cfin = hs_msg(20, rng.randbytes(self.hl))
        ack = qf.ack(largest=0, delay=1, first=0)[0]

        def ch_frames():
            split = s["ch_split"]
            if not split:
                return [[qf.crypto(0, ch)[0]]]
            # split = {"cuts": (a, b..), "order": perm, "packets": bool}
            cuts = [0] + list(split["cuts"]) + [len(ch)]
            ov = split.get("overlap", 0)      # every piece but the last also repeats the first `ov` bytes of its successor
            frs = [qf.crypto(cuts[i], ch[cuts[i]:min(len(ch), cuts[i + 1] + (ov if i < len(cuts) - 2 else 0))])[0] for i in range(len(cuts) - 1)]
            frs = [frs[i] for i in split["order"]]
            if split.get("packets"):
                return [[f] for f in frs]
            return [frs]

        def client_initials():
            groups = ch_frames()
            for gi, frs in enumerate(groups):
                payload = b"".join(frs)
                payload = payload + b"\x00" * max(0, 1162 - len(payload))
                self.dgram("c", [self.long_pkt(0, "c", payload)], tag="c-initial")
                if gi == 0 and len(groups) > 1 and s.get("ch_ack_between"):
                    # the server acknowledges the first Initial before the rest of the ClientHello is sent: from then on the client
                    # addresses the server by the server's connection id (RFC 9000 7.2) - the Initial keys stay those of the first DCID
                    self.dcid_for["s"] = self.ccid
                    self.dgram("s", [self.long_pkt(0, "s", qf.ack(largest=0, delay=0, first=0)[0] + b"\x00" * 30)], tag="s-initial-ack")
                    self.dcid_for["c"] = self.scid

        if s["retry"]:
            client_initials()
            rscid = rng.randbytes(8)
            tok = rng.randbytes(s.get("retry_token_len") or 24)
            self.dgram("s", [retry_packet(self.odcid, self.ccid, rscid, tok)], tag="retry")
            # the client restarts: new Initial keys from the Retry SCID, packet numbers continue
            self.dcid_for["c"] = rscid
            self.set_initial_keys(rscid)
            self.token = tok
        client_initials()
        if s.get("vn"):
            # a Version Negotiation datagram from the server's address right after the client's Initial (a client that offered
            # version 1 ignores it, RFC 9000 6.2); it carries no packet number and no protected payload
            vn = bytes([0xCA]) + bytes(4) + bytes([len(self.ccid)]) + self.ccid + bytes([len(self.dcid_for["c"])]) + self.dcid_for["c"] + \
                bytes.fromhex("00000001") + bytes.fromhex("6b3343cf") + bytes.fromhex("1a2a3a4a")
            self.dgram("s", [vn], tag="vn")
        if s["zero_rtt"]:
            fr, data = self.stream_frames([(0, 77)])
            self.dgram("c", [self.long_pkt(1, "c", fr)], stream=data, tag="0rtt")
        # server: Initial(SH) | Handshake(flight) | 1-RTT
        self.dcid_for["s"] = self.ccid
        p_ini = lambda: self.long_pkt(0, "s", ack + qf.crypto(0, sh)[0])       # noqa
        p_hs = lambda: self.long_pkt(2, "s", qf.crypto(0, sf)[0])              # noqa
        co = s["coalesce"]
        script = list(s["script"])

        def one_rtt(d, specs, gen=0, dcid=None):
            fr, data = self.stream_frames(specs, s["stream_flags"])
            payload = b"".join(s["before"]) + fr + (b"" if (s["stream_flags"] or {}).get("len", True) is False else b"".join(s["after"]))
            return self.short_pkt(d, payload, gen=gen, dcid=dcid), data

        if co == "separate":
            self.dgram("s", [p_ini()], tag="s-initial")
            self.dgram("s", [p_hs()], tag="s-handshake")
        elif co == "ini+hs":
            self.dgram("s", [p_ini(), p_hs()], tag="s-initial+handshake")
        elif co == "ini+hs+1rtt":
            # server may send 1-RTT data right after its Finished (0.5-RTT data)
            d0, sp0 = script[1] if script[1][0] == "s" else ("s", [(3, 30)])
            a, b = p_ini(), p_hs()
            self.dcid_for_s_tmp = None
            pk, data = one_rtt("s", [(3, 33)])
            self.dgram("s", [a, b, pk], stream=data, tag="s-initial+handshake+1rtt")
        elif co == "hs+1rtt":
            self.dgram("s", [p_ini()], tag="s-initial")
            b = p_hs()
            pk, data = one_rtt("s", [(3, 33)])
            self.dgram("s", [b, pk], stream=data, tag="s-handshake+1rtt")
        else:
            raise ValueError(co)
        # client: Initial ACK, Handshake Finished
        self.dcid_for["c"] = self.scid
        c_ini_ack = lambda: self.long_pkt(0, "c", ack + b"\x00" * 20)           # noqa
        c_hs = lambda: self.long_pkt(2, "c", ack + qf.crypto(0, cfin)[0])       # noqa
        if co in ("separate", "hs+1rtt"):
            self.dgram("c", [c_ini_ack()], tag="c-initial-ack")
            self.dgram("c", [c_hs()], tag="c-handshake")
        else:
            a, b = c_ini_ack(), c_hs()
            d0, sp0 = script[0]
            pk, data = one_rtt("c", sp0)
            script = script[1:]
            self.dgram("c", [a, b, pk], stream=data, tag="c-initial+handshake+1rtt")
        # server: HANDSHAKE_DONE (+ NEW_CONNECTION_ID)
        done = qf.handshake_done()[0] + qf.new_token(rng.randbytes(16))[0]
        ncid = s["ncid"]
        new_s = new_c = None
        if ncid:
            new_s = rng.randbytes(ncid.get("s_len", 8))
            done += qf.new_connection_id(1, new_s, token=rng.randbytes(16))[0]
        self.dgram("s", [self.short_pkt("s", done)], tag="s-done")
        if ncid and ncid.get("c_len") is not None:
            new_c = rng.randbytes(ncid["c_len"])
            if ncid.get("equal"):
                new_c = new_s[:ncid["c_len"]]      # both endpoints happen to issue the same connection ID (legal: they choose independently)
            self.dgram("c", [self.short_pkt("c", qf.new_connection_id(1, new_c, token=rng.randbytes(16))[0] + ack)], tag="c-ncid")
        for i, (d, specs) in enumerate(script):
            if ncid and i >= ncid.get("after", 1):
                if new_s is not None:
                    self.dcid_for["c"] = new_s
                if new_c is not None:
                    self.dcid_for["s"] = new_c
            pk, data = one_rtt(d, specs)
            self.dgram(d, [pk], stream=data, tag=f"1rtt-{i}")
        if s["tail"]:
            # a CRYPTO-only 1-RTT datagram at the very end (e.g. a NewSessionTicket), from the given side
            td = s["tail"]
            nst = hs_msg(4, rng.randbytes(60))
            self.dgram(td, [self.short_pkt(td, qf.crypto(0, nst)[0] + ack)], tag="tail-crypto")

    def truth(self):
        """[(dir, stream bytes)] one entry per datagram that carried stream data"""
        return [(g.dir, g.stream) for g in self.dgrams if g.stream]


# ---- receiver side, used only to anchor the model on real captures (mc/validate.py) -------------------

def unprotect(keys: PKeys, packet: bytes, pn_offset: int, long: bool, largest_pn: int = -1):
    """removes header protection and opens the AEAD (raises on a bad tag).  `packet` must end where the
    protected packet ends.  Returns (packet number, plaintext payload)."""
    from .rfc9000 import decode_packet_number
    sample = packet[pn_offset + 4:pn_offset + 20]
    m = keys.mask(sample)
    first = packet[0] ^ (m[0] & (0x0F if long else 0x1F))
    pn_len = (first & 3) + 1
    pn_bytes = bytes(a ^ b for a, b in zip(packet[pn_offset:pn_offset + pn_len], m[1:1 + pn_len]))
    trunc = int.from_bytes(pn_bytes, "big")
    pn = decode_packet_number(largest_pn if largest_pn >= 0 else 0, trunc, 8 * pn_len) if largest_pn >= 0 else trunc
    hdr = bytes([first]) + packet[1:pn_offset] + pn_bytes
    nonce = bytes(a ^ b for a, b in zip(keys.iv, pn.to_bytes(12, "big")))
    pt = keys.aead.decrypt(nonce, packet[pn_offset + pn_len:], hdr)
    return pn, pt, first
