"""Capture assembly: turns modelled connections into packet lists (TCP segmentation, UDP
datagrams), merges flows, assigns timestamps and renders input files."""
from fractions import Fraction
from . import net, pcapio


class Pkt:
    """one capture packet before timestamps are assigned"""
    __slots__ = ("conn", "dir", "proto", "payload", "seq", "ack", "flags", "start", "end", "ts", "frame", "tag", "bad_sum")

    def __init__(self, conn, d, proto, payload, seq=0, ack=0, flags=0x18, start=None, end=None, tag=None):
        self.conn = conn
        self.dir = d
        self.proto = proto
        self.payload = payload
        self.seq = seq
        self.ack = ack
        self.flags = flags
        self.start = start      # stream offset of payload[0] (tcp)
        self.end = end
        self.ts = None
        self.frame = None
        self.tag = tag
        self.bad_sum = None

    def copy(self):
        p = Pkt(self.conn, self.dir, self.proto, self.payload, self.seq, self.ack, self.flags, self.start, self.end, self.tag)
        p.ts, p.frame, p.bad_sum = self.ts, self.frame, self.bad_sum
        return p

    def __repr__(self):
        return f"<{self.conn}:{self.dir} {self.proto} {len(self.payload)}B seq={self.seq} tag={self.tag}>"


class Ends:
    """endpoints of one connection"""

    def __init__(self, idx=0, v6=False, server_port=443, client_port=None, client_ip=None, server_ip=None):
        self.v6 = v6
        if v6:
            cip = client_ip or f"2001:db8:{idx + 1:x}::c1"
            sip = server_ip or f"2001:db8:{idx + 1:x}::5e"
        else:
            cip = client_ip or f"10.{idx + 1}.0.2"
            sip = server_ip or f"192.0.{idx + 2}.80"
        self.client = net.Endpoint(bytes([0x02, 0xC0, idx & 0xFF, 0x11, 0x22, 0x33]), cip, client_port or (40000 + 17 * idx + 1))
        self.server = net.Endpoint(bytes([0x02, 0x5E, idx & 0xFF, 0x44, 0x55, 0x66]), sip, server_port)

    def src_dst(self, d):
        return (self.client, self.server) if d == "c" else (self.server, self.client)


def default_cut(data: bytes, mss=1460):
    return [data[i:i + mss] for i in range(0, len(data), mss)] or []


def tcp_packets(conn_id, sends, isn=(0x10000000, 0x20000000), cutter=None, handshake=True, mss=1460, fin="none"):
    """sends: list of (dir, bytes).  Every send is cut into segments by `cutter(dir, index, data)`
    (default: at MSS).  Returns list of Pkt with absolute sequence numbers (mod 2^32) and the
    stream offsets each covers."""
    pk = []
    nxt = {"c": 0, "s": 0}
    isn_ = {"c": isn[0], "s": isn[1]}
    if handshake:
        pk.append(Pkt(conn_id, "c", "tcp", b"", isn[0], 0, 0x02, tag="syn"))
        pk.append(Pkt(conn_id, "s", "tcp", b"", isn[1], isn[0] + 1, 0x12, tag="synack"))
        pk.append(Pkt(conn_id, "c", "tcp", b"", isn[0] + 1, isn[1] + 1, 0x10, tag="ack"))
    for i, (d, data) in enumerate(sends):
        parts = cutter(d, i, data) if cutter else default_cut(data, mss)
        assert b"".join(parts) == data
        o = "s" if d == "c" else "c"
        for part in parts:
            if not part:
                continue
            seq = (isn_[d] + 1 + nxt[d]) & 0xFFFFFFFF
            ack = (isn_[o] + 1 + nxt[o]) & 0xFFFFFFFF
            pk.append(Pkt(conn_id, d, "tcp", part, seq, ack, 0x18, nxt[d], nxt[d] + len(part)))
            nxt[d] += len(part)
    if fin == "on_last_data":
        # each side closes right after its last write: the FIN flag rides on its last data segment (PSH|ACK|FIN)
        for d in ("c", "s"):
            last = [p for p in pk if p.dir == d and p.payload]
            if last:
                last[-1].flags = 0x19
    elif fin == "separate":
        for d in ("c", "s"):
            o = "s" if d == "c" else "c"
            pk.append(Pkt(conn_id, d, "tcp", b"", (isn_[d] + 1 + nxt[d]) & 0xFFFFFFFF, (isn_[o] + 1 + nxt[o]) & 0xFFFFFFFF, 0x11, tag="fin"))
    return pk


def udp_packets(conn_id, datagrams):
    """datagrams: list of (dir, payload[, tag])"""
    return [Pkt(conn_id, x[0], "udp", x[1], tag=(x[2] if len(x) > 2 else None)) for x in datagrams]


T0 = Fraction(1700000000) + Fraction(123457, 10 ** 6)
STEP = Fraction(10007, 10 ** 6)


def stamp(pkts, ends, t0=T0, step=STEP):
    """assigns timestamps by position and renders the frames.  ends: {conn_id: Ends}"""
    for i, p in enumerate(pkts):
        p.ts = t0 + i * step
        render(p, ends)
    return pkts


def render(p, ends):
    e = ends[p.conn]
    src, dst = e.src_dst(p.dir)
    p.frame = net.build_frame(src, dst, p.proto, p.payload, p.seq, p.ack, p.flags, transport_sum=p.bad_sum)
    return p


def to_items(pkts):
    return [pcapio.pkt(p.ts, p.frame) for p in pkts]


def pcapng(pkts, keylog_dsb=None, **kw):
    items = []
    if keylog_dsb is not None:
        items.append(pcapio.dsb(keylog_dsb))
    items += to_items(pkts)
    return pcapio.write_pcapng(items, **kw)


def merges(a, b, max_switches=None):
    """all order-preserving merges of two sequences as tuples of 0/1 (which list supplies the next
    item), optionally only those with at most max_switches context switches"""
    out = []
    na, nb = len(a), len(b)

    def rec(i, j, acc, last, sw):
        if i == na and j == nb:
            out.append(tuple(acc))
            return
        for who in (0, 1):
            if who == 0 and i == na:
                continue
            if who == 1 and j == nb:
                continue
            nsw = sw + (1 if last is not None and last != who else 0)
            if max_switches is not None and nsw > max_switches:
                continue
            acc.append(who)
            rec(i + (who == 0), j + (who == 1), acc, who, nsw)
            acc.pop()

    rec(0, 0, [], None, 0)
    return out
