"""Independent copies of the IANA TLS cipher-suite registry and an independent parser of
suite names.  Nothing here imports TLExport."""
import re

# Code points that both library copies lack or rename; each line cites its source.
SUPPLEMENT = {
    0xD001: "TLS_ECDHE_PSK_WITH_AES_128_GCM_SHA256",    # RFC 8442 section 3
    0xD002: "TLS_ECDHE_PSK_WITH_AES_256_GCM_SHA384",    # RFC 8442 section 3
    0xD003: "TLS_ECDHE_PSK_WITH_AES_128_CCM_8_SHA256",  # RFC 8442 section 3
    0xD005: "TLS_ECDHE_PSK_WITH_AES_128_CCM_SHA256",    # RFC 8442 section 3
    0xC0B0: "TLS_ECCPWD_WITH_AES_128_GCM_SHA256",       # RFC 8492 section 6 (IANA considerations)
    0xC0B1: "TLS_ECCPWD_WITH_AES_256_GCM_SHA384",       # RFC 8492 section 6
    0xC0B2: "TLS_ECCPWD_WITH_AES_128_CCM_SHA256",       # RFC 8492 section 6
    0xC0B3: "TLS_ECCPWD_WITH_AES_256_CCM_SHA384",       # RFC 8492 section 6
    0xC0AA: "TLS_PSK_DHE_WITH_AES_128_CCM_8",           # RFC 6655 section 4 / IANA registry spelling
    0xC0AB: "TLS_PSK_DHE_WITH_AES_256_CCM_8",           # RFC 6655 section 4 / IANA registry spelling
}


def registry_copies():
    """two independent library copies: dpkt and scapy"""
    import logging
    logging.getLogger("scapy.runtime").setLevel(logging.ERROR)
    import dpkt.ssl_ciphersuites as d
    from scapy.layers.tls.crypto.suites import _tls_cipher_suites
    a = {c.code: c.name for c in d.CIPHERSUITES}
    b = dict(_tls_cipher_suites)
    return a, b


class SuiteParams:
    __slots__ = ("name", "cipher", "key_len", "mode", "aead", "tag_len", "mac", "prf", "block", "fixed_iv", "tls13")

    def as_dict(self):
        return {k: getattr(self, k) for k in self.__slots__}


_CIPHERS = {
    # token sequence -> (cipher, key length, block bytes)
    ("RC4", "128"): ("RC4", 16, 0),
    ("3DES", "EDE"): ("3DES", 24, 8),
    ("IDEA",): ("IDEA", 16, 8),
    ("AES", "128"): ("AES", 16, 16),
    ("AES", "256"): ("AES", 32, 16),
    ("CAMELLIA", "128"): ("CAMELLIA", 16, 16),
    ("CAMELLIA", "256"): ("CAMELLIA", 32, 16),
    ("CHACHA20", "POLY1305"): ("CHACHA20", 32, 0),
}


def parse_name(name: str) -> SuiteParams:
    """Tokenises an IANA suite name; raises ValueError on anything it does not know.
    Grammar: TLS_<kx>_WITH_<cipher...>[_<mode>][_8][_<hash>]   or, TLS 1.3,   TLS_<cipher...>_<mode>[_8]_<hash>"""
    p = SuiteParams()
    p.name = name
    if not name.startswith("TLS_"):
        raise ValueError(name)
    if "_WITH_" in name:
        _kx, rest = name.split("_WITH_", 1)
        p.tls13 = False
    else:
        rest = name[4:]
        p.tls13 = True
    toks = rest.split("_")
    # hash (last token) if it is one
    mac = None
    if toks[-1] in ("SHA", "SHA256", "SHA384", "MD5"):
        mac = {"SHA": "sha1", "SHA256": "sha256", "SHA384": "sha384", "MD5": "md5"}[toks[-1]]
        toks = toks[:-1]
    tag = 16
    if toks[-1] == "8":
        tag = 8
        toks = toks[:-1]
    mode = None
    if toks[-1] in ("CBC", "GCM", "CCM"):
        mode = toks[-1]
        toks = toks[:-1]
    key = tuple(toks)
    if key not in _CIPHERS:
        raise ValueError(f"unknown cipher tokens {key} in {name}")
    p.cipher, p.key_len, p.block = _CIPHERS[key]
    if p.cipher == "RC4":
        if mode is not None:
            raise ValueError(name)
        p.mode = "STREAM"
    elif p.cipher == "CHACHA20":
        if mode is not None:
            raise ValueError(name)
        p.mode = "CHACHA"
    else:
        if mode is None:
            raise ValueError(name)
        p.mode = mode
    if tag == 8 and p.mode != "CCM":
        raise ValueError(name)
    p.aead = p.mode in ("GCM", "CCM", "CHACHA")
    p.tag_len = tag if p.aead else None
    if p.aead:
        # RFC 5246 6.2.3.3 / RFC 6655 / RFC 7905 / RFC 8446: hash in the name is the PRF / HKDF hash; CCM suites
        # of RFC 6655 and RFC 7251 carry no hash and use SHA-256
        p.prf = mac or "sha256"
        if p.prf not in ("sha256", "sha384"):
            raise ValueError(name)
        p.mac = None
        p.fixed_iv = 12 if (p.mode == "CHACHA" or p.tls13) else 4
    else:
        if mac is None:
            raise ValueError(name)
        p.mac = mac
        # RFC 5246 section 5: SHA-256 PRF unless the suite says otherwise; suites ending in SHA384 use P_SHA384
        p.prf = "sha384" if mac == "sha384" else "sha256"
        p.fixed_iv = 0
    return p


def hash_len(h):
    return {"md5": 16, "sha1": 20, "sha256": 32, "sha384": 48}[h]
