"""Ethernet / IPv4 / IPv6 / TCP / UDP frame builder, strict parser and RFC 1071
checksum.  struct only: shares no code with dpkt, scapy or TLExport."""
import struct
import ipaddress


def csum16(data: bytes) -> int:
    """RFC 1071 one's-complement sum of 16-bit words, folded to 16 bits."""
    if len(data) & 1:
        data = data + b"\x00"
    s = 0
    for (w,) in struct.iter_unpack("!H", data):
        s += w
    while s >> 16:
        s = (s & 0xFFFF) + (s >> 16)
    return s


def inet_checksum(data: bytes) -> int:
    return (~csum16(data)) & 0xFFFF


def ip_bytes(addr):
    if isinstance(addr, bytes):
        return addr
    return ipaddress.ip_address(addr).packed


def pseudo_header(src: bytes, dst: bytes, proto: int, length: int) -> bytes:
    if len(src) == 4:
        return src + dst + struct.pack("!BBH", 0, proto, length)
    return src + dst + struct.pack("!IHBB", length, 0, 0, proto)


class Endpoint:
    __slots__ = ("mac", "ip", "port")

    def __init__(self, mac: bytes, ip, port: int):
        self.mac = mac
        self.ip = ip_bytes(ip)
        self.port = port

    def key(self):
        return (self.ip, self.port)

    def __repr__(self):
        return f"{ipaddress.ip_address(self.ip)}:{self.port}"


def build_frame(src: Endpoint, dst: Endpoint, proto: str, payload: bytes, seq=0, ack=0, flags=0x18,
                transport_sum=None, ip_id=0, ttl=64, udp_zero_checksum=False, tcp_options=b"", v6_ext=False, v4_opts=b""):
    """Returns a complete Ethernet frame.  transport_sum overrides the (correct)
    transport checksum when given."""
    v6 = len(src.ip) == 16
    if proto == "tcp":
        doff = 5 + len(tcp_options) // 4
        hdr = struct.pack("!HHIIBBHHH", src.port, dst.port, seq & 0xFFFFFFFF, ack & 0xFFFFFFFF, doff << 4, flags, 65535, 0, 0)
        seg = hdr + tcp_options + payload
        pnum = 6
        off = 16
    else:
        seg = struct.pack("!HHHH", src.port, dst.port, 8 + len(payload), 0) + payload
        pnum = 17
        off = 6
    if transport_sum is None:
        if proto == "udp" and udp_zero_checksum:
            c = 0
        else:
            c = inet_checksum(pseudo_header(src.ip, dst.ip, pnum, len(seg)) + seg)
            if proto == "udp" and c == 0:
                c = 0xFFFF
    else:
        c = transport_sum
    seg = seg[:off] + struct.pack("!H", c) + seg[off + 2:]
    if v6:
        if v6_ext:
            # hop-by-hop options (PadN) then destination options (PadN): RFC 8200 section 4; not part of the pseudo header
            ext = bytes([60, 0, 1, 4, 0, 0, 0, 0]) + bytes([pnum, 0, 1, 4, 0, 0, 0, 0])
            ip = struct.pack("!IHBB", 6 << 28, len(ext) + len(seg), 0, ttl) + src.ip + dst.ip + ext
        else:
            ip = struct.pack("!IHBB", 6 << 28, len(seg), pnum, ttl) + src.ip + dst.ip
        etype = 0x86DD
    else:
        assert len(v4_opts) % 4 == 0 and len(v4_opts) <= 40
        ihl = 5 + len(v4_opts) // 4       # IPv4 options (RFC 791 3.1) lengthen the header; they are not part of the pseudo header
        ip = struct.pack("!BBHHHBBH", 0x40 | ihl, 0, ihl * 4 + len(seg), ip_id & 0xFFFF, 0x4000, ttl, pnum, 0) + src.ip + dst.ip + v4_opts
        ip = ip[:10] + struct.pack("!H", inet_checksum(ip)) + ip[12:]
        etype = 0x0800
    return dst.mac + src.mac + struct.pack("!H", etype) + ip + seg


class FrameError(Exception):
    pass


class Frame:
    __slots__ = ("src_mac", "dst_mac", "v6", "src_ip", "dst_ip", "proto", "sport", "dport", "seq", "ack", "flags",
                 "payload", "raw")

    def flow(self):
        a = (self.src_ip, self.sport)
        b = (self.dst_ip, self.dport)
        return (self.proto,) + tuple(sorted((a, b)))

    def __repr__(self):
        return (f"<{self.proto} {ipaddress.ip_address(self.src_ip)}:{self.sport}>{ipaddress.ip_address(self.dst_ip)}:"
                f"{self.dport} len={len(self.payload)}>")


def parse_frame(raw: bytes, strict=True) -> Frame:
    """Strict parser: every length field and checksum must be right and the frame
    must contain nothing but Ethernet/IP/TCP|UDP."""
    f = Frame()
    f.raw = raw
    if len(raw) < 14:
        raise FrameError("short ethernet frame")
    f.dst_mac, f.src_mac = raw[0:6], raw[6:12]
    (etype,) = struct.unpack("!H", raw[12:14])
    ip = raw[14:]
    if etype == 0x0800:
        f.v6 = False
        if len(ip) < 20:
            raise FrameError("short ipv4 header")
        vihl, _tos, tot, _id, _frag, _ttl, pnum, _sum = struct.unpack("!BBHHHBBH", ip[:12])
        if vihl >> 4 != 4:
            raise FrameError("ethertype 0800 but ip version %d" % (vihl >> 4))
        ihl = (vihl & 15) * 4
        if ihl < 20 or ihl > len(ip):
            raise FrameError("bad ihl")
        if strict and tot != len(ip):
            raise FrameError(f"ipv4 total length {tot} != frame bytes {len(ip)}")
        if strict and csum16(ip[:ihl]) != 0xFFFF:
            raise FrameError("bad ipv4 header checksum")
        f.src_ip, f.dst_ip = ip[12:16], ip[16:20]
        seg = ip[ihl:tot]
    elif etype == 0x86DD:
        f.v6 = True
        if len(ip) < 40:
            raise FrameError("short ipv6 header")
        vtf, plen, pnum, _hl = struct.unpack("!IHBB", ip[:8])
        if vtf >> 28 != 6:
            raise FrameError("ethertype 86dd but ip version %d" % (vtf >> 28))
        if strict and plen != len(ip) - 40:
            raise FrameError(f"ipv6 payload length {plen} != frame bytes {len(ip) - 40}")
        f.src_ip, f.dst_ip = ip[8:24], ip[24:40]
        seg = ip[40:40 + plen]
        while pnum in (0, 43, 60):        # hop-by-hop, routing, destination options: (next header, length in 8-byte units - 1)
            if len(seg) < 8:
                raise FrameError("short ipv6 extension header")
            pnum, hl = seg[0], (seg[1] + 1) * 8
            seg = seg[hl:]
    else:
        raise FrameError("ethertype %04x" % etype)
    if pnum == 6:
        f.proto = "tcp"
        if len(seg) < 20:
            raise FrameError("short tcp header")
        f.sport, f.dport, f.seq, f.ack, doff, f.flags, _win, _sum, _urg = struct.unpack("!HHIIBBHHH", seg[:20])
        doff = (doff >> 4) * 4
        if doff < 20 or doff > len(seg):
            raise FrameError("bad tcp data offset")
        f.payload = seg[doff:]
        if strict and csum16(pseudo_header(f.src_ip, f.dst_ip, 6, len(seg)) + seg) != 0xFFFF:
            raise FrameError("bad tcp checksum")
    elif pnum == 17:
        f.proto = "udp"
        if len(seg) < 8:
            raise FrameError("short udp header")
        f.sport, f.dport, ulen, usum = struct.unpack("!HHHH", seg[:8])
        if strict and ulen != len(seg):
            raise FrameError(f"udp length {ulen} != {len(seg)}")
        f.payload = seg[8:]
        f.seq = f.ack = f.flags = 0
        if strict:
            if usum == 0:
                if f.v6:
                    raise FrameError("udp/ipv6 with zero checksum")
            elif csum16(pseudo_header(f.src_ip, f.dst_ip, 17, len(seg)) + seg) != 0xFFFF:
                raise FrameError("bad udp checksum")
    else:
        raise FrameError("ip protocol %d" % pnum)
    return f


def transport_ok(raw: bytes) -> bool:
    """RFC 1071 receiver test of the transport checksum of a frame (our own
    reference for C11)."""
    try:
        parse_frame(raw, strict=True)
        return True
    except FrameError:
        return False
