"""Key schedules written from the RFC text with hashlib / hmac only.

 SSL 3.0 : RFC 6101 section 6.1, 6.2.2
 TLS 1.0 / 1.1 : RFC 2246 section 5, 6.3
 TLS 1.2 : RFC 5246 section 5, 6.3
 TLS 1.3 : RFC 8446 section 7.1, 7.3 (HKDF-Expand-Label), RFC 5869
 QUIC v1 : RFC 9001 section 5.1, 5.2, 6
"""
import hmac
import hashlib


def H(name):
    return getattr(hashlib, name)


# ---- SSL 3.0 -------------------------------------------------------------------------------

def ssl3_expand(secret: bytes, seed: bytes, n: int) -> bytes:
    out = b""
    i = 0
    while len(out) < n:
        label = bytes([ord("A") + i]) * (i + 1)
        out += hashlib.md5(secret + hashlib.sha1(label + secret + seed).digest()).digest()
        i += 1
    return out[:n]


def ssl3_master(pre_master, client_random, server_random):
    return ssl3_expand(pre_master, client_random + server_random, 48)


def ssl3_key_block(master, client_random, server_random, n):
    return ssl3_expand(master, server_random + client_random, n)


# ---- TLS 1.0 / 1.1 --------------------------------------------------------------------------

def p_hash(hname, secret, seed, n):
    out = b""
    a = seed
    while len(out) < n:
        a = hmac.new(secret, a, hname).digest()
        out += hmac.new(secret, a + seed, hname).digest()
    return out[:n]


def tls10_prf(secret, label, seed, n):
    half = (len(secret) + 1) // 2
    s1, s2 = secret[:half], secret[len(secret) - half:]
    a = p_hash("md5", s1, label + seed, n)
    b = p_hash("sha1", s2, label + seed, n)
    return bytes(x ^ y for x, y in zip(a, b))


def tls12_prf(secret, label, seed, n, hname="sha256"):
    return p_hash(hname, secret, label + seed, n)


def master_secret(version, pre_master, client_random, server_random, prf_hash="sha256"):
    if version == 0x0300:
        return ssl3_master(pre_master, client_random, server_random)
    if version in (0x0301, 0x0302):
        return tls10_prf(pre_master, b"master secret", client_random + server_random, 48)
    return tls12_prf(pre_master, b"master secret", client_random + server_random, 48, prf_hash)


def key_block(version, master, client_random, server_random, n, prf_hash="sha256"):
    if version == 0x0300:
        return ssl3_key_block(master, client_random, server_random, n)
    if version in (0x0301, 0x0302):
        return tls10_prf(master, b"key expansion", server_random + client_random, n)
    return tls12_prf(master, b"key expansion", server_random + client_random, n, prf_hash)


def partition(version, master, client_random, server_random, mac_len, key_len, iv_len, prf_hash="sha256"):
    """RFC 5246 6.3: client_write_MAC_key, server_write_MAC_key, client_write_key, server_write_key,
    client_write_IV, server_write_IV"""
    n = 2 * mac_len + 2 * key_len + 2 * iv_len
    kb = key_block(version, master, client_random, server_random, n, prf_hash)
    o = 0
    out = {}
    for name, ln in (("client_mac", mac_len), ("server_mac", mac_len), ("client_key", key_len), ("server_key", key_len),
                     ("client_iv", iv_len), ("server_iv", iv_len)):
        out[name] = kb[o:o + ln]
        o += ln
    return out


# ---- TLS 1.3 / QUIC --------------------------------------------------------------------------

def hkdf_extract(hname, salt, ikm):
    if not salt:
        salt = bytes(H(hname)().digest_size)
    return hmac.new(salt, ikm, hname).digest()


def hkdf_expand(hname, prk, info, n):
    out = b""
    t = b""
    i = 1
    while len(out) < n:
        t = hmac.new(prk, t + info + bytes([i]), hname).digest()
        out += t
        i += 1
    return out[:n]


def hkdf_expand_label(hname, secret, label, context, n):
    full = b"tls13 " + label
    info = n.to_bytes(2, "big") + bytes([len(full)]) + full + bytes([len(context)]) + context
    return hkdf_expand(hname, secret, info, n)


def tls13_traffic_keys(hname, secret, key_len):
    return {"key": hkdf_expand_label(hname, secret, b"key", b"", key_len),
            "iv": hkdf_expand_label(hname, secret, b"iv", b"", 12)}


QUIC_V1_SALT = bytes.fromhex("38762cf7f55934b34d179ae6a4c80cadccbb7f0a")


def quic_initial_secrets(dcid: bytes):
    initial = hkdf_extract("sha256", QUIC_V1_SALT, dcid)
    return {"client": hkdf_expand_label("sha256", initial, b"client in", b"", 32),
            "server": hkdf_expand_label("sha256", initial, b"server in", b"", 32)}


def quic_keys(hname, secret, key_len):
    """RFC 9001 5.1"""
    return {"key": hkdf_expand_label(hname, secret, b"quic key", b"", key_len),
            "iv": hkdf_expand_label(hname, secret, b"quic iv", b"", 12),
            "hp": hkdf_expand_label(hname, secret, b"quic hp", b"", key_len)}


def quic_next_secret(hname, secret):
    """RFC 9001 6.1"""
    return hkdf_expand_label(hname, secret, b"quic ku", b"", H(hname)().digest_size)
