"""QUIC frame encoder written from RFC 9000 section 19 and RFC 9221; every encoder
returns (bytes, truth) where truth is what a correct parser must report."""
from .rfc9000 import varint


class _W:
    """per-field varint widths: an int / None applies to every field, a tuple is consumed field by field"""

    def __init__(self, w):
        self.w = w
        self.i = 0

    def __call__(self, v):
        if isinstance(self.w, (tuple, list)):
            w = self.w[self.i] if self.i < len(self.w) else None
            self.i += 1
            return varint(v, w)
        return varint(v, self.w)


def vi(v, w):
    if isinstance(w, _W):
        return w(v)
    return varint(v, w)


def mixed(nfields):
    """width profiles with exactly one field wider than the others"""
    out = []
    for i in range(nfields):
        for wide in (2, 8):
            out.append(tuple(wide if j == i else 1 for j in range(nfields)))
    return out


def padding(n=1):
    return b"\x00" * n, {"cls": "PaddingFrame", "type": 0x00}


def ping():
    return b"\x01", {"cls": "PingFrame", "type": 0x01}


def ack(largest=10, delay=3, ranges=(), first=2, ecn=None, w=None):
    w = _W(w)
    t = 0x03 if ecn else 0x02
    b = bytes([t]) + vi(largest, w) + vi(delay, w) + vi(len(ranges), w) + vi(first, w)
    for gap, ln in ranges:
        b += vi(gap, w) + vi(ln, w)
    if ecn:
        for c in ecn:
            b += vi(c, w)
    return b, {"cls": "AckFrame", "type": t}


def reset_stream(sid=4, err=7, final=50, w=None):
    w = _W(w)
    return b"\x04" + vi(sid, w) + vi(err, w) + vi(final, w), {"cls": "ResetStreamFrame", "type": 4}


def stop_sending(sid=4, err=7, w=None):
    w = _W(w)
    return b"\x05" + vi(sid, w) + vi(err, w), {"cls": "StopSendingFrame", "type": 5}


def crypto(offset, data, w=None):
    w = _W(w)
    return b"\x06" + vi(offset, w) + vi(len(data), w) + data, {"cls": "CryptoFrame", "type": 6, "offset": offset, "crypto": data}


def new_token(token, w=None):
    w = _W(w)
    return b"\x07" + vi(len(token), w) + token, {"cls": "NewTokenFrame", "type": 7}


def stream(sid, data, offset=0, off=False, ln=True, fin=False, w=None):
    w = _W(w)
    t = 0x08 | (4 if off else 0) | (2 if ln else 0) | (1 if fin else 0)
    b = bytes([t]) + vi(sid, w)
    if off:
        b += vi(offset, w)
    if ln:
        b += vi(len(data), w)
    b += data
    return b, {"cls": "StreamFrame", "type": t, "stream_id": sid, "offset": offset if off else 0, "fin": fin,
               "stream_data": data, "last_only": not ln}


def max_data(v=60, w=None):
    w = _W(w)
    return b"\x10" + vi(v, w), {"cls": "MaxDataFrame", "type": 0x10}


def max_stream_data(sid=4, v=60, w=None):
    w = _W(w)
    return b"\x11" + vi(sid, w) + vi(v, w), {"cls": "MaxStreamDataFrame", "type": 0x11}


def max_streams(v=10, uni=False, w=None):
    w = _W(w)
    t = 0x13 if uni else 0x12
    return bytes([t]) + vi(v, w), {"cls": "MaxStreamsFrame", "type": t}


def data_blocked(v=60, w=None):
    w = _W(w)
    return b"\x14" + vi(v, w), {"cls": "DataBlockedFrame", "type": 0x14}


def stream_data_blocked(sid=4, v=60, w=None):
    w = _W(w)
    return b"\x15" + vi(sid, w) + vi(v, w), {"cls": "StreamDataBlockedFrame", "type": 0x15}


def streams_blocked(v=10, uni=False, w=None):
    w = _W(w)
    t = 0x17 if uni else 0x16
    return bytes([t]) + vi(v, w), {"cls": "StreamsBlockedFrame", "type": t}


def new_connection_id(seq, cid, retire=0, token=b"T" * 16, w=None):
    w = _W(w)
    assert len(token) == 16
    return (b"\x18" + vi(seq, w) + vi(retire, w) + bytes([len(cid)]) + cid + token,
            {"cls": "NewConnectionIdFrame", "type": 0x18, "connection_id": cid})


def retire_connection_id(seq=1, w=None):
    w = _W(w)
    return b"\x19" + vi(seq, w), {"cls": "RetireConnectionIdFrame", "type": 0x19}


def path_challenge(data=b"12345678"):
    return b"\x1a" + data, {"cls": "PathChallengeFrame", "type": 0x1a}


def path_response(data=b"87654321"):
    return b"\x1b" + data, {"cls": "PathResponseFrame", "type": 0x1b}


def connection_close(err=1, ftype=6, reason=b"", app=False, w=None):
    w = _W(w)
    if app:
        return b"\x1d" + vi(err, w) + vi(len(reason), w) + reason, {"cls": "ConnectionCloseFrame", "type": 0x1d}
    return b"\x1c" + vi(err, w) + vi(ftype, w) + vi(len(reason), w) + reason, {"cls": "ConnectionCloseFrame", "type": 0x1c}


def handshake_done():
    return b"\x1e", {"cls": "HandshakeDoneFrame", "type": 0x1e}


def datagram(data, ln=True, w=None):
    w = _W(w)
    if ln:
        return b"\x31" + vi(len(data), w) + data, {"cls": "DatagramFrame", "type": 0x31}
    return b"\x30" + data, {"cls": "DatagramFrame", "type": 0x30, "last_only": True}


def alphabet(full=True):
    """instance alphabet for C17: list of (label, bytes, truth)"""
    out = []

    def add(label, enc):
        b, t = enc
        t = dict(t)
        t["len"] = len(b)
        out.append((label, b, t))

    widths = (1, 2, 4, 8) if full else (None,)
    add("PADDING1", padding(1))
    if full:
        add("PADDING3", padding(3))
    add("PING", ping())
    # ACK frames with many ranges (a receiver that lost every other packet): 63/64 (one- to two-byte count), 256/257, 1000
    for nr in ((64, 257) if not full else (63, 64, 256, 257, 1000)):
        rg = tuple((i % 3, (i * 7) % 5) for i in range(nr))
        add(f"ACK/r{nr}", ack(largest=10 ** 6, ranges=rg, first=1))
        add(f"ACKECN/r{nr}", ack(largest=10 ** 6, ranges=rg, first=1, ecn=(1, 2, 3)))
    for w in widths:
        for nr, rg in ((0, ()), (1, ((1, 2),)), (2, ((1, 2), (0, 5)))):
            if not full and nr == 2:
                continue
            add(f"ACK/r{nr}/w{w}", ack(ranges=rg, w=w))
            add(f"ACKECN/r{nr}/w{w}", ack(ranges=rg, ecn=(1, 2, 3), w=w))
        add(f"RESET_STREAM/w{w}", reset_stream(w=w))
        add(f"STOP_SENDING/w{w}", stop_sending(w=w))
        for d in ((b"", b"c", b"crypt") if full else (b"cr",)):
            add(f"CRYPTO/{len(d)}/w{w}", crypto(5, d, w=w))
        for d in ((b"t", b"token") if full else (b"tok",)):
            add(f"NEW_TOKEN/{len(d)}/w{w}", new_token(d, w=w))
        for off in (False, True):
            for ln in (False, True):
                for fin in (False, True):
                    for d in ((b"", b"s", b"strea") if full else (b"st",)):
                        add(f"STREAM/o{int(off)}l{int(ln)}f{int(fin)}/{len(d)}/w{w}",
                            stream(8, d, offset=33, off=off, ln=ln, fin=fin, w=w))
        add(f"MAX_DATA/w{w}", max_data(w=w))
        add(f"MAX_STREAM_DATA/w{w}", max_stream_data(w=w))
        add(f"MAX_STREAMS_BIDI/w{w}", max_streams(w=w))
        add(f"MAX_STREAMS_UNI/w{w}", max_streams(uni=True, w=w))
        add(f"DATA_BLOCKED/w{w}", data_blocked(w=w))
        add(f"STREAM_DATA_BLOCKED/w{w}", stream_data_blocked(w=w))
        add(f"STREAMS_BLOCKED_BIDI/w{w}", streams_blocked(w=w))
        add(f"STREAMS_BLOCKED_UNI/w{w}", streams_blocked(uni=True, w=w))
        for cl in ((1, 8, 20) if full else (8,)):
            add(f"NEW_CONNECTION_ID/{cl}/w{w}", new_connection_id(2, bytes(range(0x41, 0x41 + cl)), w=w))
        add(f"RETIRE_CONNECTION_ID/w{w}", retire_connection_id(w=w))
        # reason phrases: empty, ASCII, and bytes that are no valid UTF-8 (RFC 9000 19.19: SHOULD be UTF-8, so they are well-formed)
        for r in ((b"", b"bye", b"\xe9t\xe9\xff") if full else (b"x", b"\xff\xfe")):
            add(f"CONNECTION_CLOSE/{len(r)}/w{w}", connection_close(reason=r, w=w))
            add(f"CONNECTION_CLOSE_APP/{len(r)}/w{w}", connection_close(reason=r, app=True, w=w))
        for d in ((b"d", b"dgram") if full else (b"dg",)):
            add(f"DATAGRAM_LEN/{len(d)}/w{w}", datagram(d, w=w))
    if full:
        for prof in mixed(4):
            add(f"ACK/r0/mixed{prof}", ack(ranges=(), w=prof))
        for prof in mixed(7):
            add(f"ACKECN/r0/mixed{prof}", ack(ranges=(), ecn=(1, 2, 3), w=prof))
        for prof in mixed(6):
            add(f"ACK/r1/mixed{prof}", ack(ranges=((1, 2),), w=prof))
        for prof in mixed(3):
            add(f"RESET_STREAM/mixed{prof}", reset_stream(w=prof))
            add(f"STREAM/o1l1f0/5/mixed{prof}", stream(8, b"strea", offset=33, off=True, ln=True, w=prof))
            add(f"CONNECTION_CLOSE/3/mixed{prof}", connection_close(reason=b"bye", w=prof))
        for prof in mixed(2):
            add(f"STOP_SENDING/mixed{prof}", stop_sending(w=prof))
            add(f"CRYPTO/5/mixed{prof}", crypto(5, b"crypt", w=prof))
            add(f"MAX_STREAM_DATA/mixed{prof}", max_stream_data(w=prof))
            add(f"STREAM_DATA_BLOCKED/mixed{prof}", stream_data_blocked(w=prof))
            add(f"NEW_CONNECTION_ID/8/mixed{prof}", new_connection_id(2, b"ABCDEFGH", w=prof))
            add(f"CONNECTION_CLOSE_APP/3/mixed{prof}", connection_close(reason=b"bye", app=True, w=prof))
            add(f"STREAM/o0l1f0/5/mixed{prof}", stream(8, b"strea", ln=True, w=prof))
    add("PATH_CHALLENGE", path_challenge())
    add("PATH_RESPONSE", path_response())
    add("HANDSHAKE_DONE", handshake_done())
    add("DATAGRAM_NOLEN/5", datagram(b"dgram", ln=False))
    if full:
        add("DATAGRAM_NOLEN/0", datagram(b"", ln=False))
    return out
