"""Own pcapng / legacy pcap writer (with every container variant the checks need)
and a strict pcapng reader + TCP conversation validator used as the oracle for
the output files.  struct only."""
import struct
from fractions import Fraction
from . import net

BT_SHB = 0x0A0D0D0A
BT_IDB = 1
BT_PB = 2
BT_SPB = 3
BT_NRB = 4
BT_ISB = 5
BT_EPB = 6
BT_DSB = 0x0A
BT_CUSTOM = 0x00000BAD
BT_CUSTOM_NC = 0x40000BAD
TLS_KEYLOG_SECRETS = 0x544C534B


def _pad(b: bytes) -> bytes:
    return b + b"\x00" * (-len(b) % 4)


def _opts(e, opts):
    if not opts:
        return b""
    out = b""
    for code, val in opts:
        out += struct.pack(e + "HH", code, len(val)) + _pad(val)
    return out + struct.pack(e + "HH", 0, 0)


def _block(e, btype, body):
    n = 12 + len(body)
    assert len(body) % 4 == 0
    return struct.pack(e + "II", btype, n) + body + struct.pack(e + "I", n)


class Item:
    """One element of a capture: a packet, a DSB or an arbitrary extra block."""
    __slots__ = ("kind", "ts", "data", "extra")

    def __init__(self, kind, ts=None, data=b"", extra=None):
        self.kind = kind      # 'pkt' | 'dsb' | 'block'
        self.ts = ts          # Fraction / int seconds for packets
        self.data = data
        self.extra = extra    # for 'block': (type, body-builder)

    def __repr__(self):
        return f"<{self.kind} ts={self.ts} len={len(self.data)}>"


def pkt(ts, data, orig_len=None):
    """orig_len: length of the packet on the wire when the capture kept only its first len(data) bytes (snap length)"""
    return Item("pkt", Fraction(ts), data, orig_len)


def dsb(text):
    if isinstance(text, str):
        text = text.encode()
    return Item("dsb", None, text)


def extra_block(kind):
    return Item("block", None, b"", kind)


def _extra_body(e, kind):
    if kind == "nrb":
        rec = struct.pack(e + "HH", 1, 4 + 6) + _pad(bytes([10, 0, 0, 1]) + b"host\x00\x00")
        return BT_NRB, rec + struct.pack(e + "HH", 0, 0)
    if kind == "isb":
        return BT_ISB, struct.pack(e + "III", 0, 0, 1000) + _opts(e, [(4, struct.pack(e + "Q", 42))])
    if kind == "custom":
        return BT_CUSTOM, struct.pack(e + "I", 32473) + _pad(b"custom-data")
    if kind == "custom_nc":
        return BT_CUSTOM_NC, struct.pack(e + "I", 32473) + _pad(b"x")
    if kind.startswith("custom_len"):
        n = int(kind[len("custom_len"):])
        return BT_CUSTOM, struct.pack(e + "I", 32473) + _pad(b"c" * n)
    if kind == "unknown":
        return 0x00000ABC, _pad(b"unknown block body")
    if kind == "custom_big":
        # a 400 kB custom block (larger than any packet block)
        return BT_CUSTOM, struct.pack(e + "I", 32473) + _pad(b"B" * 400001)
    if kind == "idb2":
        # a SECOND interface (no packet uses it) whose timestamps are in milliseconds with an offset
        return BT_IDB, struct.pack(e + "HHI", 1, 0, 0) + _opts(e, [(9, bytes([3])), (14, struct.pack(e + "q", 777))])
    if kind == "spb":
        frame = b"\xff" * 6 + b"\x02" * 6 + b"\x08\x06" + b"\x00" * 28   # an ARP-ish frame
        return BT_SPB, struct.pack(e + "I", len(frame)) + _pad(frame)
    raise ValueError(kind)


def write_pcapng(items, endian="<", tsresol=None, tsoffset=None, shb_opts=None, idb_opts=None, epb_opts=None,
                 snaplen=0, linktype=1, tsoffset_first=False, pre_idb=(), pre_idb_raw=()):
    """items: list of Item.  tsresol: None (default 10^-6) or the raw if_tsresol byte.
    Packet timestamps are exact Fractions; they must be representable in the unit."""
    e = endian
    out = _block(e, BT_SHB, struct.pack(e + "IHHq", 0x1A2B3C4D, 1, 0, -1) + _opts(e, shb_opts))
    io = list(idb_opts or [])
    if tsoffset is not None and tsoffset_first:
        io.append((14, struct.pack(e + "q", tsoffset)))
    if tsresol is not None:
        io.append((9, bytes([tsresol])))
    if tsoffset is not None and not tsoffset_first:
        io.append((14, struct.pack(e + "q", tsoffset)))
    for kind in pre_idb:
        bt, body = _extra_body(e, kind)
        out += _block(e, bt, body)
    for it in pre_idb_raw:          # decryption secrets blocks in front of the interface description
        out += _block(e, BT_DSB, struct.pack(e + "II", TLS_KEYLOG_SECRETS, len(it.data)) + _pad(it.data))
    out += _block(e, BT_IDB, struct.pack(e + "HHI", linktype, 0, snaplen) + _opts(e, io))
    if tsresol is None:
        unit = Fraction(1, 10 ** 6)
    elif tsresol & 0x80:
        unit = Fraction(1, 2 ** (tsresol & 0x7F))
    else:
        unit = Fraction(1, 10 ** tsresol)
    for it in items:
        if it.kind == "pkt":
            t = (it.ts - (tsoffset or 0)) / unit
            if t.denominator != 1:
                raise ValueError(f"timestamp {it.ts} not representable with unit {unit}")
            t = int(t)
            body = struct.pack(e + "IIIII", 0, t >> 32, t & 0xFFFFFFFF, len(it.data), it.extra or len(it.data)) + _pad(it.data)
            out += _block(e, BT_EPB, body + _opts(e, epb_opts))
        elif it.kind == "dsb":
            body = struct.pack(e + "II", TLS_KEYLOG_SECRETS, len(it.data)) + _pad(it.data)
            out += _block(e, BT_DSB, body)
        else:
            bt, body = _extra_body(e, it.extra)
            out += _block(e, bt, body)
    return out


def write_pcap(items, endian="<", nano=False, linktype=1):
    """legacy pcap; DSBs and extra blocks cannot be expressed and are rejected."""
    e = endian
    magic = 0xA1B23C4D if nano else 0xA1B2C3D4
    out = struct.pack(e + "IHHiIII", magic, 2, 4, 0, 0, 65535, linktype)
    for it in items:
        if it.kind != "pkt":
            raise ValueError("legacy pcap holds packets only")
        sec = int(it.ts)
        frac = (it.ts - sec) * (10 ** 9 if nano else 10 ** 6)
        if frac.denominator != 1:
            raise ValueError("timestamp not representable")
        out += struct.pack(e + "IIII", sec, int(frac), len(it.data), it.extra or len(it.data)) + it.data
    return out


# ----------------------------------------------------------------------------------------------
# strict reader for TLExport's output

class PcapngError(Exception):
    pass


def read_pcapng(buf: bytes):
    """Strict reader.  Returns list of (ts_fraction, frame_bytes).  Raises PcapngError
    on any structural problem."""
    if len(buf) < 28:
        raise PcapngError("file shorter than a section header block")
    if buf[:4] != b"\x0a\x0d\x0d\x0a":
        raise PcapngError("file does not start with a section header block")
    bom = buf[8:12]
    if bom == b"\x4d\x3c\x2b\x1a":
        e = "<"
    elif bom == b"\x1a\x2b\x3c\x4d":
        e = ">"
    else:
        raise PcapngError("bad byte-order magic")
    pos = 0
    out = []
    ifaces = []
    first = True
    while pos < len(buf):
        if len(buf) - pos < 12:
            raise PcapngError(f"trailing {len(buf) - pos} bytes do not form a block")
        bt, bl = struct.unpack(e + "II", buf[pos:pos + 8])
        if bl % 4 or bl < 12:
            raise PcapngError(f"block length {bl} not aligned / too small at {pos}")
        if pos + bl > len(buf):
            raise PcapngError(f"block at {pos} overruns the file")
        (bl2,) = struct.unpack(e + "I", buf[pos + bl - 4:pos + bl])
        if bl2 != bl:
            raise PcapngError(f"leading/trailing block length differ at {pos}")
        body = buf[pos + 8:pos + bl - 4]
        if first:
            if bt != BT_SHB:
                raise PcapngError("first block is not a SHB")
            maj, _min = struct.unpack(e + "HH", body[4:8])
            if maj != 1:
                raise PcapngError("pcapng major version %d" % maj)
            first = False
        elif bt == BT_SHB:
            raise PcapngError("second section header")
        elif bt == BT_IDB:
            link, _res, snap = struct.unpack(e + "HHI", body[:8])
            unit = Fraction(1, 10 ** 6)
            o = 8
            while o + 4 <= len(body):
                code, ln = struct.unpack(e + "HH", body[o:o + 4])
                if code == 0:
                    break
                val = body[o + 4:o + 4 + ln]
                if code == 9:
                    r = val[0]
                    unit = Fraction(1, 2 ** (r & 0x7F)) if r & 0x80 else Fraction(1, 10 ** r)
                o += 4 + ln + (-ln % 4)
            ifaces.append((link, snap, unit))
        elif bt == BT_EPB:
            if len(body) < 20:
                raise PcapngError("short EPB")
            iface, th, tl, cap, ln = struct.unpack(e + "IIIII", body[:20])
            if iface >= len(ifaces):
                raise PcapngError("EPB refers to undefined interface")
            link, snap, unit = ifaces[iface]
            if link != 1:
                raise PcapngError("linktype %d, expected Ethernet" % link)
            if cap > ln:
                raise PcapngError("caplen > len")
            if snap and cap > snap:
                raise PcapngError("caplen > snaplen")
            if 20 + cap > len(body):
                raise PcapngError("EPB data overruns block")
            out.append((((th << 32) | tl) * unit, body[20:20 + cap], ln))
        else:
            raise PcapngError("unexpected block type %#x in output" % bt)
        pos += bl
    if first:
        raise PcapngError("no SHB")
    return out


class Conversation:
    """Validates one TCP conversation of the output and reassembles both directions."""

    def __init__(self):
        self.pkts = []


def analyse(buf: bytes, require_handshake=True):
    """Full strict analysis of an output file.
    Returns dict with
       'packets': list of (ts, Frame)
       'tcp': {flowkey: {'client': (ip,port), 'server': (ip,port), 'c2s': bytes, 's2c': bytes,
                         'data': [(ts, dir, payload)], 'hs_ts': [...]}}
       'udp': {flowkey: [(ts, src(ip,port), dst, payload)]}
    Raises PcapngError / FrameError on malformation."""
    recs = read_pcapng(buf)
    for ts, raw, ln in recs:
        if ln != len(raw):
            raise PcapngError("captured length differs from original length")
    return analyse_packets([(ts, raw) for ts, raw, ln in recs], require_handshake)


def analyse_packets(recs, require_handshake=True):
    """the same analysis on a list of (timestamp, frame bytes)"""
    packets = []
    for ts, raw in recs:
        fr = net.parse_frame(raw, strict=True)
        packets.append((ts, fr))
    tcp = {}
    udp = {}
    for ts, fr in packets:
        k = fr.flow()
        if fr.proto == "udp":
            udp.setdefault(k, []).append((ts, (fr.src_ip, fr.sport), (fr.dst_ip, fr.dport), fr.payload, fr))
        else:
            tcp.setdefault(k, []).append((ts, fr))
    tcp_out = {}
    for k, plist in tcp.items():
        tcp_out[k] = _check_conversation(plist, require_handshake)
    return {"packets": packets, "tcp": tcp_out, "udp": udp}


SYN, ACK, PSH, FIN, RST = 0x02, 0x10, 0x08, 0x01, 0x04


def _check_conversation(plist, require_handshake=True):
    """Three-way handshake first; data contiguous from ISN+1 without gaps or overlap;
    every ACK number equals the peer's next sequence number at that point.  A
    conversation may be restarted by a new SYN (TLExport never does today)."""
    if len(plist) < 3:
        raise PcapngError("tcp conversation with fewer than 3 packets")
    (t0, syn), (t1, synack), (t2, ack) = plist[0], plist[1], plist[2]
    if syn.flags & 0x3F != SYN or syn.payload:
        raise PcapngError("conversation does not start with SYN")
    client = (syn.src_ip, syn.sport)
    server = (syn.dst_ip, syn.dport)
    if (synack.flags & 0x3F != (SYN | ACK) or (synack.src_ip, synack.sport) != server
            or (synack.dst_ip, synack.dport) != client or synack.ack != (syn.seq + 1) & 0xFFFFFFFF or synack.payload):
        raise PcapngError("second packet is not the matching SYN-ACK")
    if (ack.flags & 0x3F != ACK or (ack.src_ip, ack.sport) != client or ack.seq != (syn.seq + 1) & 0xFFFFFFFF
            or ack.ack != (synack.seq + 1) & 0xFFFFFFFF or ack.payload):
        raise PcapngError("third packet is not the handshake ACK")
    nxt = {client: (syn.seq + 1) & 0xFFFFFFFF, server: (synack.seq + 1) & 0xFFFFFFFF}
    streams = {client: bytearray(), server: bytearray()}
    data = []
    macs = {client: syn.src_mac, server: syn.dst_mac}
    for ts, fr in plist[3:]:
        src = (fr.src_ip, fr.sport)
        dst = (fr.dst_ip, fr.dport)
        if src not in nxt or dst not in nxt or src == dst:
            raise PcapngError("packet of foreign endpoints inside conversation")
        if fr.flags & (SYN | RST | FIN):
            raise PcapngError("unexpected SYN/RST/FIN inside conversation")
        if not fr.flags & ACK:
            raise PcapngError("segment without ACK flag")
        if fr.src_mac != macs[src] or fr.dst_mac != macs[dst]:
            raise PcapngError("MAC addresses changed inside conversation")
        if fr.seq != nxt[src]:
            raise PcapngError(f"sequence gap/overlap: seq {fr.seq} expected {nxt[src]}")
        if fr.ack != nxt[dst]:
            raise PcapngError(f"inconsistent acknowledgement: ack {fr.ack} expected {nxt[dst]}")
        if fr.payload:
            streams[src] += fr.payload
            nxt[src] = (nxt[src] + len(fr.payload)) & 0xFFFFFFFF
            data.append((ts, "c2s" if src == client else "s2c", bytes(fr.payload), fr))
    return {"client": client, "server": server, "c2s": bytes(streams[client]), "s2c": bytes(streams[server]),
            "data": data, "hs_ts": [t0, t1, t2], "client_mac": syn.src_mac, "server_mac": syn.dst_mac,
            "v6": syn.v6, "npkts": len(plist)}


def find_tcp(an, client, server=None):
    """conversation whose client endpoint is (ip,port) `client`"""
    for k, c in an["tcp"].items():
        if c["client"] == client and (server is None or c["server"] == server):
            return c
    return None
