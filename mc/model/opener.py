"""Receiver side of the TLS peer model: opens a recorded connection (per-direction byte streams + key log)
with the model's key schedule and record protection, VERIFYING every MAC / AEAD tag.  Used only to anchor the
model on traffic produced by real stacks (repository captures, live OpenSSL)."""
import struct
from . import tls, kdf, iana


class OpenError(Exception):
    pass


def split_records(stream: bytes):
    recs, pos = [], 0
    while pos + 5 <= len(stream):
        ln = struct.unpack("!H", stream[pos + 3:pos + 5])[0]
        if pos + 5 + ln > len(stream):
            break
        recs.append(stream[pos:pos + 5 + ln])
        pos += 5 + ln
    return recs, stream[pos:]


def parse_hello(msg: bytes, server: bool):
    """-> dict(version, random, suite/offered, exts)"""
    body = msg[4:]
    out = {"legacy_version": struct.unpack("!H", body[:2])[0], "random": body[2:34]}
    p = 34
    sl = body[p]
    p += 1 + sl
    if server:
        out["suite"] = struct.unpack("!H", body[p:p + 2])[0]
        p += 3
    else:
        cl = struct.unpack("!H", body[p:p + 2])[0]
        p += 2 + cl
        ml = body[p]
        p += 1 + ml
    exts = {}
    if p + 2 <= len(body):
        el = struct.unpack("!H", body[p:p + 2])[0]
        p += 2
        end = p + el
        while p + 4 <= end:
            t, l = struct.unpack("!HH", body[p:p + 4])
            exts[t] = body[p + 4:p + 4 + l]
            p += 4 + l
    out["exts"] = exts
    return out


def open_connection(streams, keylog_lines, suite_names):
    """streams: {'c': bytes, 's': bytes}.  Returns dict(version, suite, etm, app={'c': bytes,'s': bytes},
    verified=count of protected records whose MAC/tag verified).  Raises OpenError."""
    recs = {}
    for d in ("c", "s"):
        recs[d], rest = split_records(streams[d])
    if not recs["c"] or not recs["s"]:
        raise OpenError("no records")
    ch = parse_hello(recs["c"][0][5:], False)
    sh = parse_hello(recs["s"][0][5:], True)
    version = sh["legacy_version"]
    if sh["exts"].get(43) == b"\x03\x04":
        version = tls.TLS13
    suite = sh["suite"]
    if suite not in suite_names:
        raise OpenError(f"suite {suite:#06x} unknown to the model")
    sp = iana.parse_name(suite_names[suite])
    etm = 22 in sh["exts"] and sp.mode == "CBC"
    cr = ch["random"].hex()
    secrets = {}
    for l in keylog_lines:
        parts = l.split()
        if len(parts) == 3 and parts[1].lower() == cr:
            secrets[parts[0]] = bytes.fromhex(parts[2])
    out = {"version": version, "suite": suite, "etm": etm, "app": {"c": b"", "s": b""}, "verified": 0}
    if version == tls.TLS13:
        need = ["CLIENT_HANDSHAKE_TRAFFIC_SECRET", "SERVER_HANDSHAKE_TRAFFIC_SECRET", "CLIENT_TRAFFIC_SECRET_0", "SERVER_TRAFFIC_SECRET_0"]
        if any(n not in secrets for n in need):
            raise OpenError("secrets missing")

        def st(name):
            k = kdf.tls13_traffic_keys(sp.prf, secrets[name], sp.key_len)
            return tls.CipherState(tls.TLS13, sp, k["key"], None, k["iv"])
        for d, hs, ap in (("s", "SERVER_HANDSHAKE_TRAFFIC_SECRET", "SERVER_TRAFFIC_SECRET_0"),
                          ("c", "CLIENT_HANDSHAKE_TRAFFIC_SECRET", "CLIENT_TRAFFIC_SECRET_0")):
            state = st(hs)
            app_state = st(ap)
            for r in recs[d][1:]:
                if r[0] != tls.CT_APP:
                    continue
                try:
                    ctype, data = state.open(r)
                except ValueError as e:
                    raise OpenError(f"TLS 1.3 record failed to open ({d}): {e}")
                out["verified"] += 1
                if ctype == tls.CT_HS:
                    p = 0
                    while p + 4 <= len(data):
                        if data[p] == 20:
                            state = app_state
                        p += 4 + int.from_bytes(data[p + 1:p + 4], "big")
                elif ctype == tls.CT_APP:
                    out["app"][d] += data
        return out
    if "CLIENT_RANDOM" not in secrets:
        raise OpenError("secrets missing")
    km = tls.key_material(version, sp, secrets["CLIENT_RANDOM"], ch["random"], sh["random"])
    for d in ("c", "s"):
        side = "client" if d == "c" else "server"
        state = tls.CipherState(version, sp, km[side + "_key"], km[side + "_mac"], km[side + "_iv"], etm)
        protected = False
        for r in recs[d]:
            if r[0] == tls.CT_CCS and not protected:
                protected = True
                continue
            if not protected:
                continue
            try:
                ctype, data = state.open(r)
            except ValueError as e:
                raise OpenError(f"record failed to open ({d}, seq {state.seq}): {e}")
            out["verified"] += 1
            if ctype == tls.CT_APP:
                out["app"][d] += data
    return out
