"""A live OpenSSL peer, offline: two ssl.SSLObject endpoints joined by MemoryBIOs, with key logging.
Gives real TLS traffic whose ground truth (the application bytes written) does not depend on our own
peer model at all.  Used (a) by mc/validate.py to anchor the model (the model must open this traffic
with verified MACs/tags) and (b) by C01 as a second traffic source."""
import os
import ssl
import datetime
import tempfile

_cert = None


def cert_files():
    """self-signed RSA certificate, generated once per process into the scratch directory"""
    global _cert
    if _cert is None or not os.path.exists(_cert[0]) or _cert[2] != os.getpid():
        from cryptography import x509
        from cryptography.x509.oid import NameOID
        from cryptography.hazmat.primitives import hashes, serialization
        from cryptography.hazmat.primitives.asymmetric import rsa
        key = rsa.generate_private_key(public_exponent=65537, key_size=2048)
        name = x509.Name([x509.NameAttribute(NameOID.COMMON_NAME, "example.com")])
        now = datetime.datetime(2024, 1, 1)
        cert = (x509.CertificateBuilder().subject_name(name).issuer_name(name).public_key(key.public_key())
                .serial_number(1).not_valid_before(now).not_valid_after(now + datetime.timedelta(days=36500))
                .sign(key, hashes.SHA256()))
        d = tempfile.mkdtemp(prefix="tlxlive-", dir="/dev/shm" if os.path.isdir("/dev/shm") else None)
        cp, kp = os.path.join(d, "c.pem"), os.path.join(d, "k.pem")
        with open(cp, "wb") as f:
            f.write(cert.public_bytes(serialization.Encoding.PEM))
        with open(kp, "wb") as f:
            f.write(key.private_bytes(serialization.Encoding.PEM, serialization.PrivateFormat.TraditionalOpenSSL,
                                      serialization.NoEncryption()))
        import atexit
        import shutil
        pid = os.getpid()
        atexit.register(lambda: os.getpid() == pid and shutil.rmtree(d, ignore_errors=True))
        _cert = (cp, kp, os.getpid(), d)
    return _cert[0], _cert[1], _cert[3]


VERSIONS = {"TLS1.0": ssl.TLSVersion.TLSv1, "TLS1.1": ssl.TLSVersion.TLSv1_1, "TLS1.2": ssl.TLSVersion.TLSv1_2,
            "TLS1.3": ssl.TLSVersion.TLSv1_3}


class LiveError(Exception):
    pass


def run(version, cipher, history, payload):
    """version: key of VERSIONS; cipher: OpenSSL cipher name (TLS<=1.2) or TLS 1.3 suite name;
    history: [(dir, length)]; payload(dir, i, n) -> bytes.
    Returns dict(sends=[(dir, bytes)], keylog=[lines], plain={'c':..,'s':..}, cipher=(name, proto, bits))"""
    import warnings
    warnings.simplefilter("ignore")
    cp, kp, d = cert_files()
    klog = os.path.join(d, f"keys-{os.getpid()}.log")
    open(klog, "w").close()
    sctx = ssl.SSLContext(ssl.PROTOCOL_TLS_SERVER)
    cctx = ssl.SSLContext(ssl.PROTOCOL_TLS_CLIENT)
    cctx.check_hostname = False
    cctx.verify_mode = ssl.CERT_NONE
    for ctx in (sctx, cctx):
        ctx.minimum_version = VERSIONS[version]
        ctx.maximum_version = VERSIONS[version]
        ctx.options |= ssl.OP_NO_COMPRESSION
    try:
        if version == "TLS1.3":
            # TLS 1.3 suites cannot be selected through set_ciphers in Python's ssl; the server preference decides among
            # the defaults, so only suites enabled by default are reachable (AES-GCM x2, ChaCha20)
            sctx.set_ciphers("ALL:@SECLEVEL=0")
            cctx.set_ciphers("ALL:@SECLEVEL=0")
        else:
            sctx.set_ciphers(cipher + ":@SECLEVEL=0")
            cctx.set_ciphers(cipher + ":@SECLEVEL=0")
    except ssl.SSLError as e:
        raise LiveError(f"cipher not available: {e}")
    sctx.load_cert_chain(cp, kp)
    cctx.keylog_filename = klog
    cin, cout, sin, sout = ssl.MemoryBIO(), ssl.MemoryBIO(), ssl.MemoryBIO(), ssl.MemoryBIO()
    c = cctx.wrap_bio(cin, cout, server_side=False, server_hostname="example.com")
    s = sctx.wrap_bio(sin, sout, server_side=True)
    sends = []

    def pump():
        moved = False
        b = cout.read()
        if b:
            sends.append(("c", b))
            sin.write(b)
            moved = True
        b = sout.read()
        if b:
            sends.append(("s", b))
            cin.write(b)
            moved = True
        return moved

    done_c = done_s = False
    for _ in range(20):
        if not done_c:
            try:
                c.do_handshake()
                done_c = True
            except ssl.SSLWantReadError:
                pass
            except ssl.SSLError as e:
                raise LiveError(f"handshake failed: {e}")
        pump()
        if not done_s:
            try:
                s.do_handshake()
                done_s = True
            except ssl.SSLWantReadError:
                pass
            except ssl.SSLError as e:
                raise LiveError(f"handshake failed: {e}")
        pump()
        if done_c and done_s:
            break
    if not (done_c and done_s):
        raise LiveError("handshake did not complete")
    # drain post-handshake messages (TLS 1.3 tickets)
    try:
        c.read(1)
    except ssl.SSLWantReadError:
        pass
    pump()
    plain = {"c": b"", "s": b""}
    for i, (d_, n) in enumerate(history):
        data = payload(d_, i, n)
        w, r = (c, s) if d_ == "c" else (s, c)
        if n:
            w.write(data)
        pump()
        got = b""
        while len(got) < n:
            try:
                got += r.read(65536)
            except ssl.SSLWantReadError:
                break
        pump()
        if got != data:
            raise LiveError("peer did not receive what was written")
        plain[d_] += data
    with open(klog) as f:
        lines = [l.strip() for l in f if l.strip() and not l.startswith("#")]
    os.unlink(klog)
    return {"sends": sends, "keylog": lines, "plain": plain, "cipher": c.cipher()}


# OpenSSL cipher names for the cipher-state classes a stock OpenSSL 3 can speak
LIVE_CLASSES = [
    ("TLS1.0", "AES128-SHA"), ("TLS1.0", "AES256-SHA"), ("TLS1.0", "CAMELLIA128-SHA"), ("TLS1.0", "ECDHE-RSA-AES256-SHA"),
    ("TLS1.1", "AES128-SHA"), ("TLS1.1", "CAMELLIA256-SHA"), ("TLS1.1", "DHE-RSA-AES128-SHA"),
    ("TLS1.2", "AES128-SHA"), ("TLS1.2", "AES128-SHA256"), ("TLS1.2", "AES256-SHA256"), ("TLS1.2", "ECDHE-RSA-AES256-SHA384"),
    ("TLS1.2", "CAMELLIA128-SHA256"), ("TLS1.2", "AES128-GCM-SHA256"), ("TLS1.2", "ECDHE-RSA-AES256-GCM-SHA384"),
    ("TLS1.2", "AES128-CCM"), ("TLS1.2", "AES256-CCM8"), ("TLS1.2", "ECDHE-RSA-CHACHA20-POLY1305"),
    ("TLS1.2", "DHE-RSA-AES128-CCM"), ("TLS1.3", "default"),
]
