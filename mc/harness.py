"""E0 - execute the real TLExport code.

 * in-process end-to-end: run_tlexport() calls tlexport.main.run() with generated
   input files and returns the bytes of the output file;
 * CLI judge: run_cli() runs `python -m tlexport.main` in a fresh process with a
   chosen cwd / environment / hash seed;
 * the source tree is /repo unless $TLEXPORT_SRC names another checkout (used only
   for mutation demos on scratch worktrees).
"""
import io
import os
import sys
import shutil
import logging
import hashlib
import tempfile
import traceback
import subprocess
import contextlib

SRC = os.environ.get("TLEXPORT_SRC", "/repo")
PY = "/venv/bin/python"
GUARD = "TLEXPORT_VERIF"

_loaded = None
RUN_TIMEOUT_S = float(os.environ.get("VERIF_RUN_TIMEOUT_S", "20"))


class RunTimeout(BaseException):
    pass


class HangAbort(BaseException):
    """raised after MAX_HANGS executions of one case did not terminate: the case is reported as failing with what
    was found so far instead of waiting RUN_TIMEOUT_S for each of its remaining executions"""

    def __init__(self, infos):
        super().__init__(f"{len(infos)} executions did not terminate")
        self.infos = infos


MAX_HANGS = int(os.environ.get("VERIF_MAX_HANGS", "2"))
_hangs = []


def load():
    """import tlexport from SRC (never from an installed copy elsewhere)"""
    global _loaded
    if _loaded is None:
        os.environ.setdefault(GUARD, "1")
        if sys.path[0] != SRC:
            sys.path.insert(0, SRC)
        import warnings
        warnings.simplefilter("ignore")
        logging.getLogger("scapy.runtime").setLevel(logging.ERROR)
        import tlexport.main as m
        assert os.path.realpath(m.__file__).startswith(os.path.realpath(SRC) + os.sep), m.__file__
        _loaded = m
    return _loaded


_scratch = None


def scratch_dir():
    global _scratch
    if _scratch is None or not os.path.isdir(_scratch) or _scratch_pid != os.getpid():
        base = "/dev/shm" if os.path.isdir("/dev/shm") and os.access("/dev/shm", os.W_OK) else tempfile.gettempdir()
        _set_scratch(tempfile.mkdtemp(prefix="tlxverif-", dir=base))
    return _scratch


_scratch_pid = None


def _set_scratch(d):
    global _scratch, _scratch_pid
    _scratch = d
    _scratch_pid = os.getpid()
    import atexit
    pid = os.getpid()

    def _rm():
        if os.getpid() == pid:
            shutil.rmtree(d, ignore_errors=True)
    atexit.register(_rm)


def reset_state(m=None):
    """restore the module-level state of tlexport.main and the logging configuration,
    so that consecutive in-process executions do not influence each other"""
    m = m or load()
    m.server_ports[:] = [443, 44330]
    m.keylog.clear()
    m.sessions.clear()
    m.quic_sessions.clear()
    root = logging.getLogger()
    for h in root.handlers[:]:
        root.removeHandler(h)
    for f in root.filters[:]:
        root.removeFilter(f)
    root.setLevel(logging.WARNING)


class Result:
    __slots__ = ("status", "out", "detail", "stdout")

    def __init__(self, status, out, detail="", stdout=""):
        self.status = status    # 'ok' | 'exc:<Type>' | 'exit:<code>'
        self.out = out          # bytes of the output file or None
        self.detail = detail
        self.stdout = stdout

    @property
    def ok(self):
        return self.status == "ok"

    def digest(self):
        h = hashlib.sha256()
        h.update(self.status.encode())
        h.update(b"\0" if self.out is None else self.out)
        return h.hexdigest()[:16]


_devnull = None


def run_tlexport(capture: bytes, keylog, args=(), infile="in.pcapng", reset=True, cwd=None, keep_state=False,
                 want_objects=False, keep_output=False):
    """One in-process execution of tlexport.main.run().

    capture : bytes of the input file
    keylog  : str/bytes written to a key-log file passed with -s, or None for no -s
    args    : further argv items
    returns Result; with want_objects also the (sessions, quic_sessions) lists (copied)
    """
    global _devnull
    m = load()
    d = scratch_dir()
    inp = os.path.join(d, infile)
    outp = os.path.join(d, "out.pcapng")
    with open(inp, "wb") as f:
        f.write(capture)
    if not keep_output:       # keep_output: whatever an earlier run left at the output path stays there (C18)
        with contextlib.suppress(FileNotFoundError):
            os.unlink(outp)
    argv = ["tlexport", "-i", inp, "-o", outp]
    if keylog is not None:
        kp = os.path.join(d, "keys.log")
        with open(kp, "wb") as f:
            f.write(keylog if isinstance(keylog, bytes) else keylog.encode())
        argv += ["-s", kp]
    argv += [str(a) for a in args]
    if reset:
        reset_state(m)
    if _devnull is None:
        _devnull = open(os.devnull, "w")
    old_argv, old_out, old_err, old_cwd = sys.argv, sys.stdout, sys.stderr, os.getcwd()
    sys.argv = argv
    sys.stdout = _devnull
    sys.stderr = _devnull
    os.chdir(cwd or d)
    status, detail = "ok", ""
    # watchdog: an execution normally takes milliseconds; a run that has not returned after RUN_TIMEOUT_S seconds is reported
    # as status 'hang' (and its memory growth is bounded by the address-space limit set in the pool workers)
    import signal

    def _on_alarm(signum, frame):
        raise RunTimeout()
    use_alarm = hasattr(signal, "setitimer") and __import__("threading").current_thread() is __import__("threading").main_thread()
    if use_alarm:
        old_handler = signal.signal(signal.SIGALRM, _on_alarm)
        signal.setitimer(signal.ITIMER_REAL, RUN_TIMEOUT_S)
    try:
        m.run()
    except RunTimeout:
        status = "hang"
        detail = f"run() did not return within {RUN_TIMEOUT_S} s"
        _hangs.append({"args": [str(a) for a in args], "capture_sha": hashlib.sha256(capture).hexdigest()[:12], "capture_bytes": len(capture)})
    except SystemExit as e:
        status = f"exit:{e.code}"
    except BaseException as e:     # noqa - the status of the execution, not an error of ours
        status = f"exc:{type(e).__name__}"
        detail = traceback.format_exc(limit=6)
    finally:
        if use_alarm:
            signal.setitimer(signal.ITIMER_REAL, 0)
            signal.signal(signal.SIGALRM, old_handler)
        sys.argv, sys.stdout, sys.stderr = old_argv, old_out, old_err
        os.chdir(old_cwd)
    out = None
    if os.path.exists(outp):
        with open(outp, "rb") as f:
            out = f.read()
    if status == "hang" and len(_hangs) >= MAX_HANGS:
        infos = list(_hangs)
        del _hangs[:]
        raise HangAbort(infos)
    res = Result(status, out, detail)
    if want_objects:
        objs = (list(m.sessions), list(m.quic_sessions))
        if not keep_state and reset:
            pass
        return res, objs
    return res


def run_cli(capture: bytes, keylog, args=(), cwd=None, env=None, hashseed="0", infile="in.pcapng", timeout=120,
            src=None, workdir=None, outfile_rel=None, stale_output=None):
    """Fresh-process execution through the command line, `python -m tlexport.main`.
    env: extra environment (the base is minimal, not inherited)."""
    src = src or SRC
    own = workdir is None
    d = workdir or tempfile.mkdtemp(prefix="tlxcli-", dir=os.path.dirname(scratch_dir()))
    try:
        inp = os.path.join(d, infile)
        outp = os.path.join(d, "out.pcapng")
        with open(inp, "wb") as f:
            f.write(capture)
        if stale_output is not None:
            with open(outp, "wb") as f:
                f.write(stale_output)
        argv = [PY, "-m", "tlexport.main", "-i", inp, "-o", outp]
        if keylog is not None:
            kp = os.path.join(d, "keys.log")
            with open(kp, "wb") as f:
                f.write(keylog if isinstance(keylog, bytes) else keylog.encode())
            argv += ["-s", kp]
        argv += [str(a) for a in args]
        e = {"PATH": "/usr/bin:/bin", "PYTHONPATH": src, "PYTHONHASHSEED": str(hashseed),
             "PYTHONDONTWRITEBYTECODE": "1", GUARD: "1"}
        if env:
            e.update(env)
            for k in [k for k, v in e.items() if v is None]:
                del e[k]
        p = subprocess.run(argv, cwd=cwd or d, env=e, stdout=subprocess.PIPE, stderr=subprocess.PIPE, timeout=timeout)
        out = None
        if os.path.exists(outp):
            with open(outp, "rb") as f:
                out = f.read()
        if p.returncode == 0:
            status = "ok"
        else:
            last = p.stderr.decode(errors="replace").strip().splitlines()
            exc = last[-1].split(":")[0].strip() if last else ""
            status = f"exc:{exc}" if "Traceback" in p.stderr.decode(errors="replace") else f"exit:{p.returncode}"
        return Result(status, out, p.stderr.decode(errors="replace")[-1500:], p.stdout.decode(errors="replace"))
    finally:
        if own:
            shutil.rmtree(d, ignore_errors=True)


def src_fingerprint():
    """sha256 over the tlexport sources under SRC (recorded in the evidence so a run is
    tied to the tree it checked)"""
    h = hashlib.sha256()
    base = os.path.join(SRC, "tlexport")
    for root, dirs, files in sorted(os.walk(base)):
        dirs.sort()
        if "pcaps_und_keylogs" in root or "__pycache__" in root:
            continue
        for fn in sorted(files):
            if fn.endswith(".py"):
                with open(os.path.join(root, fn), "rb") as f:
                    h.update(fn.encode() + b"\0" + f.read())
    return h.hexdigest()[:16]
