#!/venv/bin/python
"""writes /verif/MANIFEST.json from mc/registry.py and validates it"""
import os
import sys
import json
import subprocess

VERIF = os.path.dirname(os.path.dirname(os.path.abspath(__file__)))
sys.path.insert(0, VERIF)
from mc import registry  # noqa


def main():
    props = [json.loads(l) for l in open(os.path.join(VERIF, "properties.jsonl"))]
    ids = [p["id"] for p in props]
    hooks_commits = getattr(registry, "HOOK_COMMITS", [])
    man = {
        "version": 1,
        "setup_cmd": "cd /verif && /venv/bin/python -m mc.setup",
        "hooks": {
            "guard": "TLEXPORT_VERIF",
            "enable": "no source hooks are needed (every observation point is reachable from outside the package); "
                      "checks export TLEXPORT_VERIF=1 only for uniformity and import TLExport from /repo's working tree",
            "baseline_off_cmd": "cd /repo && env -u TLEXPORT_VERIF /venv/bin/python -m pytest -ra -q -p no:cacheprovider "
                                "--timeout=900 --continue-on-collection-errors",
            "source_commits": hooks_commits,
            "add_only": True,
        },
        "engines": [
            {"name": "engine", "path": "mc/engine.py", "serves_properties": sorted(registry.CHECKS),
             "kind_free_text": "exhaustive enumeration of declared bounded spaces (products, k-deviations, operation "
                               "sequences, BFS over real objects, context-bounded schedules, single faults at every "
                               "position) executed on the real code in a 16-worker pool; fresh-process judge replays "
                               "every failure twice before it is reported; evidence writer; known-findings matcher"},
            {"name": "harness", "path": "mc/harness.py", "serves_properties": sorted(registry.CHECKS),
             "kind_free_text": "in-process driver of tlexport.main.run(), CLI judge (python -m tlexport.main)"},
            {"name": "models", "path": "mc/model/", "serves_properties": sorted(registry.CHECKS),
             "kind_free_text": "reference models written from the RFCs: peer-side TLS and QUIC v1 traffic generators, "
                               "key schedules, IANA registry copies, RFC 1071, pcapng writer and strict reader"},
        ],
        "checks": [],
        "not_applicable": [],
        "notes": "All checks: ./check <ID> --tier quick|thorough ; replay: ./check <ID> --replay <file>. "
                 "Exit 0 = held on everything explored, 1 = VIOLATION line printed, 2 = harness error (never a finding). "
                 "known_findings.json lists recorded genuine defects; see DESIGN.md.",
    }
    for pid in ids:
        c = registry.CHECKS.get(pid)
        if c is None:
            man["not_applicable"].append({"property_id": pid, "reason": getattr(registry, "NOT_APPLICABLE", {}).get(pid, registry.NOT_YET)})
            continue
        man["checks"].append({
            "property_id": pid,
            "quick_cmd": f"./check {pid} --tier quick",
            "thorough_cmd": f"./check {pid} --tier thorough",
            "evidence_file": f"/verif/evidence/{pid}.json",
            "replay_cmd_template": f"./check {pid} --replay {{path}}",
            "engine": "engine",
            "level_claimed": {"category": c["category"], "text": c["text"], "design_ref": c["design_ref"]},
            "level_note": c["note"],
            "technique": c["technique"],
        })
    if not man["not_applicable"]:
        del man["not_applicable"]
    path = os.path.join(VERIF, "MANIFEST.json")
    with open(path, "w") as f:
        json.dump(man, f, indent=1)
    r = subprocess.run(["python3-vt", "-c",
                        "import json,jsonschema,sys;jsonschema.validate(json.load(open(sys.argv[1])),"
                        "json.load(open('/root/.vp/MANIFEST.schema.json')));print('MANIFEST valid')", path])
    sys.exit(r.returncode)


if __name__ == "__main__":
    main()
