#!/venv/bin/python
"""Regenerates DESIGN.md section 11.6 (the enumerated space of every check as it stands) from each check's describe()."""
import os
import sys
import importlib

VERIF = os.path.dirname(os.path.dirname(os.path.abspath(__file__)))
sys.path.insert(0, VERIF)
BEGIN, END = "<!-- rules:begin -->", "<!-- rules:end -->"


def main():
    out = []
    for i in range(1, 19):
        mod = importlib.import_module(f"mc.checks.c{i:02d}")
        q, t = mod.describe("quick"), mod.describe("thorough")
        out.append(f"**{mod.PROP}** ({mod.LEVEL}). {q['rule']}")
        if t["rule"] != q["rule"]:
            out.append(f"  *thorough:* {t['rule']}")
        out.append("  *assumptions:* " + " | ".join(q.get("assumptions", [])))
        out.append("")
    text = "\n".join(out)
    p = os.path.join(VERIF, "DESIGN.md")
    s = open(p).read()
    if BEGIN in s:
        s = s[:s.index(BEGIN) + len(BEGIN)] + "\n" + text + "\n" + s[s.index(END):]
    else:
        s = s.rstrip("\n") + "\n\n### 11.6 The enumerated space of every check as it stands (generated from the checks' own describe())\n\n" + \
            "What follows is printed by `tools/gen_rules.py` from the text every check writes into its evidence file; it is the authoritative\n" + \
            "statement of what is enumerated (section 5 is the design as first written, the tables above say how it grew).\n\n" + BEGIN + "\n" + text + "\n" + END + "\n"
    open(p, "w").write(s)
    print("ok", len(text))


if __name__ == "__main__":
    main()
