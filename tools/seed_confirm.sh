#!/bin/bash
# tools/seed_confirm.sh : the prescribed confirmation - apply each seeded patch to /repo, run the quickest of the checks that are
# recorded as catching it (the property's own check where none is: those lines are expected to read exit=0), undo the patch straight afterwards.  Writes seeded/CONFIRM.txt.
cd "$(dirname "$0")/.."
out=seeded/CONFIRM.txt
[ -n "$RESUME" ] || : > $out      # RESUME=1: keep the lines already there and skip their seeds
export VERIF_MAX_JUDGED=${VERIF_MAX_JUDGED:-1}   # one judged violation is enough to see exit=1
[ -n "$(git -C /repo status --porcelain --untracked-files=no)" ] && { echo "/repo not clean"; exit 2; }
for d in seeded/C*/; do
  k=$(basename $d)
  grep -q "^$k " $out && continue
  checks=$(/venv/bin/python -c "import json;m=json.load(open('$d/meta.json'));w={'C10':2,'C14':2,'C16':6,'C17':8,'C15':9,'C05':13,'C13':13,'C08':19,'C07':21,'C11':24,'C06':30,'C12':33,'C01':55,'C04':63,'C18':64,'C02':74,'C03':89,'C09':129};print(min(m['caught_by'] or [m['property']], key=lambda c:w.get(c,99)))")
  p=$PWD/$d/patch.diff; [ -f $d/patch_ported.diff ] && p=$PWD/$d/patch_ported.diff; git -C /repo apply $p || { echo "$k patch does not apply" | tee -a $out; continue; }
  for c in $checks; do
    ./check $c --tier quick > /tmp/confirm.$$ 2>&1; rc=$?
    echo "$k $c exit=$rc $(grep -c '^VIOLATION' /tmp/confirm.$$) violation lines" | tee -a $out
  done
  git -C /repo checkout -- .
done
git checkout -- evidence
rm -f /tmp/confirm.$$
