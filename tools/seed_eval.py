#!/venv/bin/python
"""tools/seed_eval.py <ID> <variant> [checks...]
Confirms a deliberately broken tree produced by an independent sub-agent in the scratch worktree /tmp/wt/<ID>
(patch applies to HEAD, the 60 baseline tests still pass, the demonstration fails with the patch and passes
without), runs our checks against the patched worktree (TLEXPORT_SRC) and stores everything under
/verif/seeded/<ID>-<variant>/ with a meta.json."""
import os
import re
import sys
import json
import shutil
import subprocess

VERIF = os.path.dirname(os.path.dirname(os.path.abspath(__file__)))


def sh(cmd, cwd=None, env=None, timeout=3600):
    p = subprocess.run(cmd, shell=True, cwd=cwd, env=env, stdout=subprocess.PIPE, stderr=subprocess.STDOUT, timeout=timeout)
    return p.returncode, p.stdout.decode(errors="replace")


def main():
    pid, var = sys.argv[1], sys.argv[2]
    checks = sys.argv[3:] or [pid]
    wt = f"{os.environ.get('SEED_WT', '/tmp/wt3')}/{pid}"
    src = f"{wt}/seeded/{var}"
    out = {"property": pid, "variant": var}
    rc, o = sh("git status --porcelain --untracked-files=no", cwd=wt)
    assert o.strip() == "", "worktree not clean: " + o
    rc, o = sh(f"git apply --check {src}/patch.diff", cwd=wt)
    assert rc == 0, "patch does not apply: " + o
    # demo on the original tree
    rc, o = sh(f"/venv/bin/python {src}/demo.py", cwd=wt, timeout=900)
    out["demo_without_patch_rc"] = rc
    sh(f"git apply {src}/patch.diff", cwd=wt)
    try:
        rc, o = sh("/venv/bin/python -W ignore -m pytest -q -p no:cacheprovider --timeout=900 2>&1 | tail -3", cwd=wt)
        m = re.search(r"(\d+) passed", o)
        out["tests_passed_with_patch"] = int(m.group(1)) if m else 0
        out["tests_failed_with_patch"] = int(re.search(r"(\d+) failed", o).group(1)) if re.search(r"(\d+) failed", o) else 0
        rc, o = sh(f"/venv/bin/python {src}/demo.py", cwd=wt, timeout=900)
        out["demo_with_patch_rc"] = rc
        out["demo_with_patch_tail"] = o.strip().splitlines()[-3:]
        env = dict(os.environ, TLEXPORT_SRC=wt)
        res = {}
        for c in checks:
            try:
                rc, o = sh(f"./check {c} --tier quick", cwd=VERIF, env=env, timeout=1500)
            except subprocess.TimeoutExpired:
                # a changed tree can make a check crawl (state that grows over a case's executions): 25 minutes and on
                sh("pkill -f 'mc[.]cli " + c + "'")
                res[c] = {"exit": "timeout", "violations_printed": 0, "first": "stopped after 1500 s"}
                continue
            viol = [l for l in o.splitlines() if l.startswith("VIOLATION")]
            first = ""
            lines = o.splitlines()
            for i, l in enumerate(lines):
                if l.startswith("VIOLATION"):
                    first = " | ".join(x.strip() for x in lines[i + 1:i + 3])[:400]
                    break
            res[c] = {"exit": rc, "violations_printed": len(viol), "first": first}
        out["checks"] = res
    finally:
        sh("git checkout -- .", cwd=wt)
    # restore evidence files of the checks we ran (they were rewritten from a mutated tree)
    sh("git checkout -- evidence", cwd=VERIF)
    out["confirmed"] = bool(out["demo_without_patch_rc"] == 0 and out["demo_with_patch_rc"] != 0 and out["tests_passed_with_patch"] >= 60
                            and out["tests_failed_with_patch"] <= 1)
    out["caught_by"] = sorted(c for c, r in out.get("checks", {}).items() if r["exit"] == 1)
    out["timed_out"] = sorted(c for c, r in out.get("checks", {}).items() if r["exit"] == "timeout")
    dst = os.path.join(VERIF, "seeded", f"{pid}-{os.environ.get('SEED_TAG', 'w3')}{var}")
    os.makedirs(dst, exist_ok=True)
    for fn in ("patch.diff", "demo.py", "notes.md"):
        if os.path.exists(os.path.join(src, fn)):
            shutil.copy(os.path.join(src, fn), os.path.join(dst, fn))
    with open(os.path.join(dst, "meta.json"), "w") as f:
        json.dump(out, f, indent=1)
    print(json.dumps({k: out[k] for k in ("property", "variant", "confirmed", "caught_by", "tests_passed_with_patch",
                                          "demo_with_patch_rc", "demo_without_patch_rc")}))
    for c, r in out.get("checks", {}).items():
        print("  ", c, r["exit"], r["first"][:200])


if __name__ == "__main__":
    main()
