#!/venv/bin/python
"""Descriptive fields for the meta.json files of the seventh wave of deliberately broken trees (see seed_meta_w3.py)."""
import os
import json

VERIF = os.path.dirname(os.path.dirname(os.path.abspath(__file__)))

W7 = {
    "C01-w7a": ("session.py: one set of seen sequence numbers for both directions", "equal sequence numbers in the two directions", "caught as built by C05 (equal initial sequence numbers, added after wave 5)"),
    "C01-w7b": ("main.py: segments with SYN, FIN or RST are skipped as 'TCP housekeeping'", "FIN on the last data segment of a direction",
                "missed at first -> TCP teardown variants (FIN on the last data segment / in segments of its own) in C01 layer D"),
    "C02-w7a": ("quic_tls_parser.py: every complete handshake message raises the 'new data' flag (1-RTT decryptor list reset to generation 0)",
                ">= 2 key updates, then a NewSessionTicket in a 1-RTT CRYPTO frame, then more STREAM data",
                "missed at first -> key-update histories whose server packets also carry NewSessionTicket CRYPTO frames (C02 layer U)"),
    "C02-w7b": ("quic_decryptor.py: nonce built from a 32-bit packet number", "packet numbers >= 2^32", "caught as built by C16 (layer N)"),
    "C03-w7a": ("main.py: version enum lookup with an off-by-one bound (version 3 raises)", "a long-header datagram with version field 3",
                "missed at first -> versions 2, 3, 4, 0xffffffff in C03's structured long-header injections"),
    "C03-w7b": ("session.py: record dispatch table without a default", "a record with a content type other than 20-23", "caught as built (record family)"),
    "C04-w7a": ("session.py: ServerHello extensions collected in a mutable default dict", "a TLS 1.3 connection processed before a TLS 1.2 one", "caught as built"),
    "C04-w7b": ("main.py: sessions removed from the list while iterating it", "a session that exports nothing directly before a decryptable one", "caught as built by C03 (plain HTTP on 443)"),
    "C05-w7a": ("output_builder.py: record split with zip() drops the remainder", "record over k segments with len % k != 0", "caught as built"),
    "C05-w7b": ("session.py: framing the contiguous head run clears segments waiting behind a hole", "capture order s1 s4 s2 s3 with s2 ending a record",
                "missed at first -> segments captured two or three places early (C05 layer E)"),
    "C06-w7a": ("output_builder.py: one ACK object reused for all parts of a record", "a record in >= 2 segments", "caught as built"),
    "C06-w7b": ("output_builder.py + main.py: class-level output list returned by empty sessions, lists concatenated in place", "empty session first, exported sessions, another empty session",
                "caught as built by C03; C06 now holds a capture with silent sessions first and last"),
    "C07-w7a": ("output_builder.py: 'if not self.ts_zero' (same slip as C06-w6b, other site)", "first exported record stamped 0", "caught as built by C06 (capture stamped from 0, added after wave 6)"),
    "C07-w7b": ("session.py: one metadata list shared by all client records of a call", "a client segment holding a record and the start of the next", "caught as built"),
    "C08-w7a": ("main.py: a second plaintext ClientHello on a known 4-tuple replaces the session", "reuse of a 4-tuple / HelloRetryRequest",
                "outside the claimed space: C01 excludes reuse of a 4-tuple and HelloRetryRequest, C04 assumes distinct 4-tuples"),
    "C08-w7b": ("session.py: end-of-capture flush handles held-back client records as server records", "non-AEAD suite, a client segment with a record and the start of the next, a cut behind it",
                "missed at first -> C08 shape merged211 (consecutive writes sharing 211-byte segments)"),
    "C09-w7a": ("keylog_reader.py: search() instead of match() - a commented-out key line is parsed", "a comment line holding a complete key line for a connection of the capture",
                "missed at first -> commented-out key lines (other secret, same client random) at every position"),
    "C09-w7b": ("dpkt_dsb.py: blocks larger than snaplen + 64 KiB end the reading", "one DSB of more than 327680 bytes at snaplen 262144",
                "missed at first -> C09 writes snaplen 262144 and holds a DSB of ~470 kB"),
    "C10-w7a": ("output_builder.py: ports rewritten by value after the packets are built", "-m and a connection whose client port equals its server port",
                "missed at first -> a connection 8443 <-> 8443 in C10's capture"),
    "C10-w7b": ("main.py: -m pairs validated with a pattern that allows only 4 digits on the right", "an output port >= 10000", "caught as built"),
    "C11-w7a": ("main.py: checksum verification skipped when neither port is configured", "-c, QUIC on an unconfigured port, a damaged datagram",
                "missed at first -> one QUIC connection of C11 layer P runs on port 8443"),
    "C11-w7b": ("packet.py: the 'discarded' log line reads tls_data[5] of a 5-byte segment", "-c and a damaged segment of exactly 5 bytes",
                "missed at first -> C11 layer R flow whose record headers travel in 5-byte segments"),
    "C12-w7a": ("dpkt_dsb.py: blocks longer than 393216 bytes are taken for the end of the file", "an unrelated block of 400 kB", "missed at first -> block kind custom_big (C12)"),
    "C12-w7b": ("dpkt_dsb.py: iteration starts behind the first interface block", "a DSB between section header and interface block", "caught as built by C09"),
    "C13-w7a": ("quic_session.py: build_output returns nothing when can_decrypt is False and -a is off (the flag is sticky)", "first offered suite unknown (GREASE)",
                "first evaluation ran while its author was still working on it; re-evaluated below"),
    "C13-w7b": ("quic_output_builder.py: range(0x08, 0x0f) used for an early skip without -a", "STREAM type 0x0f", "caught as built"),
    "C14-w7a": ("session.py: TLS 1.3 records shorter than 17 bytes are skipped (assumes a 16-byte tag)", "0x1305 and writes of <= 7 bytes", "caught as built by C01"),
    "C14-w7b": ("session.py: PRF hash None for non-AEAD suites", "*_CBC_SHA384 suites", "caught as built by C15"),
    "C15-w7a": ("key_derivator.py: PRF XOR as an integer, converted back with minimal length", "a key block starting with a zero byte (1 connection in 256)",
                "caught as built by chance of the draws (C15 has 3 draws per case); a draw with a leading zero byte is now searched for in every TLS <= 1.2 case"),
    "C15-w7b": ("quic_session.py: no Initial keys for a zero-length DCID", "first Initial with DCID length 0", "caught as built"),
    "C16-w7a": ("quic_session.py: the two range guards of A.3 removed", "largest near 0 / near 2^62", "caught as built"),
    "C16-w7b": ("quic_session.py: dissector arguments hoisted out of the loop over coalesced packets", "coalesced Initial+Handshake, selected suite of another header-protection class than the first offered", "caught as built by C02"),
    "C17-w7a": ("quic_frame.py: NEW_CONNECTION_ID length check with an exclusive upper bound", "20-byte connection ID", "caught as built"),
    "C17-w7b": ("quic_frame.py + quic_session.py: reason phrase decoded as strict UTF-8", "CONNECTION_CLOSE with a reason phrase that is not UTF-8",
                "missed at first -> such reason phrases in the frame alphabet"),
    "C18-w7a": ("quic_tls_parser.py: early-data suite popped from a set of bytes", "0-RTT, >= 2 offered suites, different hash seeds",
                "missed at first (C18 enumerated hash seeds only through connection-ID sets) -> a fixed sweep of 8 further hash seeds per scenario and a 0-RTT scenario"),
    "C18-w7b": ("main.py: a DEBUG-only block count consumes the one-shot legacy reader; the log level of the first run sticks", "-d DEBUG in an earlier run, then -l",
                "missed at first -> pairs (-d DEBUG ; -l) with a legacy pcap in C18"),
}


def main():
    first = json.load(open(os.path.join(VERIF, "seeded", "wave7_first_contact.json")))
    for sid, (change, needs, hist) in W7.items():
        p = os.path.join(VERIF, "seeded", sid, "meta.json")
        if not os.path.exists(p):
            print("missing", sid)
            continue
        m = json.load(open(p))
        m.update({"breaks_property": sid[:3], "change": change, "needs_to_manifest": needs, "detection_history": hist,
                  "caught_by_at_first_contact": first.get(sid, {}).get("caught_by_at_first_contact"),
                  "base_commit": "written against dcf540e; misses re-evaluated on 74c12ea",
                  "what_was_run": [
                      f"git apply seeded/{sid}/patch.diff in a scratch worktree of /repo (outside /repo and /verif)",
                      "/venv/bin/python -m pytest -q -p no:cacheprovider (60 pass, only test_all::testrun fails as on the unchanged tree)",
                      "demo.py with the patch (non-zero) and without (zero)",
                      "TLEXPORT_SRC=<worktree> ./check <ID> --tier quick for the checks listed under 'checks'"]})
        json.dump(m, open(p, "w"), indent=1)
    print("ok")


if __name__ == "__main__":
    main()
