#!/venv/bin/python
"""Descriptive fields for the meta.json files of the sixth wave of deliberately broken trees (see seed_meta_w3.py)."""
import os
import json

VERIF = os.path.dirname(os.path.dirname(os.path.abspath(__file__)))

W6 = {
    "C01-w6a": ("session.py: matches_session no longer compares the client address in the client->server branch",
                "two client hosts using the same source port towards one server address and port",
                "missed at first -> C04 relation two_clients_same_port_one_server"),
    "C01-w6b": ("decryptor.py: CBC trailer cut with [:-n], empty for n = 0", "encrypt-then-MAC and a plaintext one byte short of a block multiple", "caught as built (C01 boundary lengths)"),
    "C02-w6a": ("quic_session.py: the Retry branch keeps the old QuicTlsSession", "0-RTT packets sent after a Retry",
                "missed at first (the menu excluded zero_rtt x retry) -> the pair is part of C02's k=2 menu"),
    "C02-w6b": ("quic_output_builder.py: the final flush takes the direction of the last buffered frame", "a trailing CRYPTO frame from the other endpoint",
                "caught as built by C07 (CRYPTO-only tails)"),
    "C03-w6a": ("quic_session.py: the warning in decrypt_packet's error handler reads key_phase, which long-header packets lack", "a long-header packet that fails authentication", "caught as built"),
    "C03-w6b": ("session.py: ClientHello parsed with struct.unpack_from (raises on a short body)", "the content type of a ChangeCipherSpec record flipped to handshake", "caught as built (record family)"),
    "C04-w6a": ("quic_session.py: matches_session_dgram compares the client address twice instead of the server address", "one client socket towards two servers", "caught as built"),
    "C04-w6b": ("keylog_reader.py + quic_session.py: Key.matches stores the decoded client random back (bytes)", "a capture mixing TLS over TCP with QUIC", "caught as built"),
    "C05-w6a": ("session.py: the constructor appends the first packet without recording its sequence number", "an exact duplicate of the very first data segment", "caught as built"),
    "C05-w6b": ("packet.py + session.py: next_seq without modulo 2^32 in the contiguity test", "sequence wrap while two segments are buffered", "caught as built (C05, C08)"),
    "C06-w6a": ("output_builder.py: sequence counters kept in a dict keyed by port number", "client port equal to the exported server port", "caught as built by C10 (server port mapped to the client's port number); C06 now also holds connections with equal port numbers"),
    "C06-w6b": ("output_builder.py: 'if not self.ts_zero' decides whether the synthetic handshake is written", "first exported packet stamped exactly 0",
                "missed at first -> C06 capture kind stamped from 0"),
    "C07-w6a": ("output_builder.py: direction flag toggled for the ACK and never restored", "a record carried in >= 2 segments", "caught as built"),
    "C07-w6b": ("output_builder.py: handshake time = minimum timestamp of the connection", "the first exported record is not the one that owns the earliest segment", "caught as built"),
    "C08-w6a": ("key_derivator.py: TLS 1.2 key block memoised without the randoms", "resumed sessions, the older connection's ServerHello late, a cut in between",
                "caught as built by C04 (resumed_session); C08 got a capture with a resumed session that completes first"),
    "C08-w6b": ("quic_tls_parser.py: overlapping CRYPTO frames are accepted by trimming the waiting frame in place (it is also in the output buffer)",
                "-a, overlapping out-of-order CRYPTO frames in different datagrams, a cut between them",
                "missed at first; preparing the scenario showed that the unchanged tree loses every connection with overlapping CRYPTO frames (F35, repaired) -> "
                "C08 runs its QUIC captures with -a as well (prefix chain on all exported datagrams) and holds an overlapping ClientHello; patch.diff is the same change on the repaired tree"),
    "C09-w6a": ("keylog_reader.py + sessions: lookup table built at the first look-up", "QUIC plus another connection whose keys arrive in a later DSB", "caught as built"),
    "C09-w6b": ("keylog_reader.py: readline loop takes an empty line for the end of the file", "blank line inside the key-log file", "caught as built"),
    "C10-w6a": ("main.py: 443 dropped from the built-in list (only the argparse default supplies it)", "-p without 443", "caught as built"),
    "C10-w6b": ("quic_output_builder.py: default output port follows the mapping of 443", "QUIC to an unlisted port with -m 443:x", "caught as built"),
    "C11-w6a": ("checksums.py: module-level pseudo-header buffer keeps IPv6 bytes", "-c, an IPv6 packet followed by IPv4 packets", "caught as built"),
    "C11-w6b": ("main.py: checksum test memoised per interpreter", "run() without -c, then run() with -c in the same interpreter",
                "missed at first -> C18 pairs whose two runs use different options"),
    "C12-w6a": ("dpkt_dsb.py: every interface description block resets the timing", "a second interface block with another resolution", "missed at first -> block kind idb2 at every position (C12)"),
    "C12-w6b": ("keylog_reader.py + main.py: keys merged per client random (later lines of the same connection dropped)", "the lines of one TLS 1.3 / QUIC connection split over two DSBs", "caught as built by C09"),
    "C13-w6a": ("session.py: without -a a session whose ClientHello has no key-log entry (case-sensitive lookup) drops its packets", "upper-case key log, no -a", "caught as built by C09 (hex case)"),
    "C13-w6b": ("quic_session.py: with -a the CRYPTO frames of a packet are sorted, STREAM frames between them are dropped", "CRYPTO | STREAM | CRYPTO in one packet and -a",
                "missed at first -> frame pairs on both sides of the STREAM frame in C13's QUIC layer"),
    "C14-w6a": ("cipher_suite_parser.py: six Camellia-256 entries renamed to ..._SHA384", "0x00C0-0x00C5", "caught as built"),
    "C14-w6b": ("session.py: class-level cache of resolved suites also caches 'unsupported'", "the same unsupported code point selected twice in one process",
                "not reported: the resolver still rejects the code point, only the repeated log line is lost - outside what C14 observes (the resolver's return value)"),
    "C15-w6a": ("quic_session.py: Initial keys re-derived when a client Initial carries another DCID", "a CRYPTO-carrying client Initial after the client switched to the server's connection ID",
                "caught as built by C15; the scenario (server ACK between ClientHello Initials) is now in C02's menu too"),
    "C15-w6b": ("quic_key_generation.py: 'quic ku' expanded with the default hash", "0x1302 and a key update", "caught as built"),
    "C16-w6a": ("quic_session.py: largest packet number recorded only after the frames were handled", "packets whose frames make the parser raise, then a short encoding", "caught as built; runs of packets with an unknown frame type are now part of layer N"),
    "C16-w6b": ("quic_session.py: 'largest < window' shortcut uses the truncated value as it is", "first wrap of the encoded field", "caught as built"),
    "C17-w6a": ("quic_frame.py: frame type decoded as a varint before dispatch (40 00 dispatches to PADDING of length 0: endless loop)", "a non-minimal varint zero at a frame boundary",
                "first evaluation stopped after 40 minutes (each hanging string costs a second plus a traced confirmation, 40 per case) -> the bytes layer stops a case after five hangs"),
    "C17-w6b": ("quic_frame.py: ACK ranges capped at 256", "an ACK frame with more than 256 ranges", "missed at first -> ACK frames with 64/257 (thorough: 63/64/256/257/1000) ranges in the frame alphabet"),
    "C18-w6a": ("main.py: output staged in a temporary file in the working directory", "working directory on another file system than the output", "caught as built (working-directory runs)"),
    "C18-w6b": ("main.py: the port map lives in a default-argument dict", "an earlier run with -m P:X, a later run with -m that does not name P", "caught (pairs with differing options, added while this wave was evaluated)"),
}


def main():
    first = json.load(open(os.path.join(VERIF, "seeded", "wave6_first_contact.json")))
    for sid, (change, needs, hist) in W6.items():
        p = os.path.join(VERIF, "seeded", sid, "meta.json")
        if not os.path.exists(p):
            print("missing", sid)
            continue
        m = json.load(open(p))
        m.update({"breaks_property": sid[:3], "change": change, "needs_to_manifest": needs, "detection_history": hist,
                  "caught_by_at_first_contact": first.get(sid, {}).get("caught_by_at_first_contact"),
                  "base_commit": "written against 3307761; misses re-evaluated on dcf540e (after fix F35)",
                  "what_was_run": [
                      f"git apply seeded/{sid}/patch.diff in a scratch worktree of /repo (outside /repo and /verif)",
                      "/venv/bin/python -m pytest -q -p no:cacheprovider (60 pass, only test_all::testrun fails as on the unchanged tree)",
                      "demo.py with the patch (non-zero) and without (zero)",
                      "TLEXPORT_SRC=<worktree> ./check <ID> --tier quick for the checks listed under 'checks'"]})
        json.dump(m, open(p, "w"), indent=1)
    print("ok")


if __name__ == "__main__":
    main()
