#!/bin/bash
# tools/run_all.sh [quick|thorough] : runs every registered check, prints one line per check
cd "$(dirname "$0")/.."
tier=${1:-quick}
rc_all=0
for c in $(/venv/bin/python -c "import json;print(' '.join(x['property_id'] for x in json.load(open('MANIFEST.json'))['checks']))"); do
  out=$(./check $c --tier $tier 2>&1); rc=$?
  echo "$out" | grep -E "^(VIOLATION|KNOWN-FINDING|HARNESS-ERROR)" | cut -c1-200
  echo "$out" | tail -1 | cut -c1-200
  [ $rc -ne 0 ] && { echo "  -> exit $rc"; rc_all=1; }
done
exit $rc_all
