#!/venv/bin/python
"""Adds the descriptive fields (what the change is, what it needs to manifest, how detection went) to the meta.json files
of the third wave of deliberately broken trees, after tools/seed_eval.py has (re)written their measured part."""
import os
import json

VERIF = os.path.dirname(os.path.dirname(os.path.abspath(__file__)))

W3 = {
    "C01-w3a": ("session.py: the guard that tells an encrypted Finished from a plaintext handshake record looks at client_cipher_change only",
                "abbreviated handshake (server Finished first) whose encrypted Finished starts with a byte that is a handshake type (0x01/0x02)",
                "missed at first -> the sender-chosen first ciphertext byte of the Finished records became a shape dimension of C01 (fin_first_byte x abbreviated)"),
    "C01-w3b": ("key_derivator.py dev_tls_13_keys made table-driven: any SERVER_* / CLIENT_* line that is not a handshake secret becomes the application secret",
                "TLS 1.3 key log in which EXPORTER_SECRET follows SERVER_TRAFFIC_SECRET_0",
                "missed at first -> C15 enumerates every order/interleaving of the other key-log lines of the same client random; C09 also permutes them"),
    "C02-w3a": ("quic_frame.py: the cursor is not advanced over the ECN counts of an ACK frame of type 0x03",
                "ACK+ECN frame whose counts are encoded in more than one byte, followed by a STREAM frame",
                "missed at first -> per-field mixed varint widths in the frame alphabet (C17) and the C02 frame menu"),
    "C02-w3b": ("main.py: the QUIC key log is indexed once, at the first ClientHello",
                "two QUIC connections, the secrets of the second arrive (DSB) after packets of the first",
                "caught as built by C02 (layer K runs several connections per process); C09 got a two-QUIC-connection base with per-connection DSBs"),
    "C03-w3a": ("main.py: long-header CID match drops the len(dcid) > 0 guard",
                "a healthy QUIC connection whose client uses a zero-length connection ID + one foreign long-header datagram with DCID length 0 (a Retry is destructive)",
                "missed at first -> C03 family inject_long: structured long-header datagrams (all types, versions, CID shapes) next to an ordinary and a zero-length-CID bystander"),
    "C03-w3b": ("quic_dissector.py: Version Negotiation branch builds supported_version from a tuple slice (TypeError when exported)",
                "a Version Negotiation datagram and -a",
                "missed at first -> inject_long runs half of its executions with -a"),
    "C04-w3a": ("key_derivator.py: TLS 1.2 key block cached per master secret",
                "two connections sharing a master secret (session resumption) in one capture",
                "missed at first -> C04 relation resumed_session"),
    "C04-w3b": ("quic_session.py: a QUIC session appends its server port to the shared server_ports list",
                "QUIC to an unconfigured port, then a connection using that number as client port / a TCP connection to it",
                "missed at first -> C04 relations port_in_two_roles and tcp_to_quic_port"),
    "C05-w3a": ("session.py: 'bytes still missing' shortcut; the client copy writes the server's counter",
                "full duplex: a client record cut over segments while the server's last segments arrive",
                "missed at first -> C05 layer B stream (24,) (a record longer than the rest of the other direction) and layer E full-duplex merges"),
    "C05-w3b": ("checksums.py: one's-complement sum folded once",
                "-c and a segment whose sum needs two folds",
                "not seen by C05 (no -c there); caught by C11 layer F as built"),
    "C06-w3a": ("output_builder.py: synthetic TCP handshake only in front of the first CLIENT record",
                "server-speaks-first dialogue",
                "caught as built"),
    "C06-w3b": ("main.py: no output file when there are no sessions",
                "capture without any session",
                "caught as built"),
    "C07-w3a": ("output_builder.py: class-level Ether/IP header cache keyed by the IP pair",
                "two connections between the same IPs over different MAC addresses",
                "missed at first -> C07 layer T carries two further connections between the same IPs with other MACs"),
    "C07-w3b": ("dpkt_dsb.py: if_tsoffset scaled while the options are parsed",
                "if_tsoffset option in front of if_tsresol",
                "not seen by C07 (default containers); caught by C12 as built"),
    "C08-w3a": ("session.py: stream start = min(seen sequence numbers)",
                "sequence numbers wrapping at 2^32 inside the data",
                "missed at first -> C08 shape seq_wrap (C05 layer W has the wrap only at the seam, where seen_packets is not consulted)"),
    "C08-w3b": ("quic_session.py: the session adopts the client's new address; all buffered output is re-addressed at the end",
                "NAT rebinding (client port changes) after stream data, cut before/after the change",
                "missed at first -> C08 shapes rebinding/rebinding_early with a datagram-level (addresses + payload) prefix oracle"),
    "C09-w3a": ("dpkt_dsb.py: the reader starts iterating after the first IDB",
                "a DSB between SHB and IDB",
                "caught (the delivery kind dsb_before_idb had just been added when it was first evaluated)"),
    "C09-w3b": ("quic_session.py: client random compared in lower / upper case only",
                "QUIC key log with mixed-case hex",
                "caught as built"),
    "C10-w3a": ("main.py: -m a:a pairs skipped",
                "an identity pair",
                "missed at first -> identity pairs in C10's -m menu"),
    "C10-w3b": ("session.py: portmap keys are taken for server ports",
                "a pair whose left side is a connection's client port",
                "missed at first -> pairs naming a client port in C10's -m menu"),
    "C11-w3a": ("checksums.py: IPv4 pseudo-header length assumes a 20-byte IP header",
                "IPv4 header options",
                "missed at first -> IPv4 options (4 and 40 bytes) in C11 layer F"),
    "C11-w3b": ("session.py: checksum verified after the sequence number was marked as seen",
                "a damaged segment followed by its intact retransmission, -c",
                "missed at first -> C11 layer R"),
    "C12-w3a": ("dpkt_dsb.py: packet data sliced by the original length instead of the captured length",
                "snap-cut packets in a pcapng file",
                "missed at first -> C12 base capture 'snap'"),
    "C12-w3b": ("dpkt_dsb.py: mutable default timing dict shared between Readers",
                "two captures with different if_tsresol in one interpreter",
                "caught as built"),
    "C13-w3a": ("session.py: source-packet cursor not advanced for records that are skipped without -a",
                "handshake tail and application data in one reassembly batch, Finished straddling segments",
                "missed at first -> C13 layer D captures in which consecutive writes share segments"),
    "C13-w3b": ("session.py: TLS 1.3 alerts are interpreted (and close the session) only with -a",
                "application data AFTER an alert (half close)",
                "outside the claimed space: C13 quantifies over connections as in C01, which excludes data after an alert"),
    "C14-w3a": ("session.py: CBC block-size table without IDEA",
                "an IDEA suite in SSL 3.0 / TLS 1.0",
                "not visible at split_cipher_suite (C14's subject); caught by C01 layer A as built"),
    "C14-w3b": ("key_derivator.py: TLS 1.2 PRF hash falls through to MD5 for *_MD5 suites",
                "TLS 1.2 with RC4-MD5",
                "not visible at split_cipher_suite; caught by C01 layer A as built"),
    "C15-w3a": ("quic_session.py: Initial keys not re-derived after a Retry",
                "Retry", "caught as built (C15, C02)"),
    "C15-w3b": ("key_derivator.py: CLIENT_EARLY_TRAFFIC_SECRET classified as the client application secret",
                "that line listed after CLIENT_TRAFFIC_SECRET_0",
                "missed at first -> C15 key-log line orders (see C01-w3b)"),
    "C16-w3a": ("quic_session.py: PACKET_TYPE_MAP reordered - 0-RTT gets a packet-number space of its own",
                "0-RTT packets followed by 1-RTT packets with short encodings",
                "missed at first (the check read the space map from TLExport) -> spaces now come from RFC 9000 12.3; 0-RTT slot in the quick BFS"),
    "C16-w3b": ("quic_key_generation.py: cached AES-ECB header-protection context keeps a partial block",
                "a packet with an incomplete header-protection sample, then more packets of that direction",
                "missed at first -> C16 layer N histories contain runts"),
    "C17-w3a": ("quic_frame.py: STREAM_DATA_BLOCKED parsed as MAX_DATA", "a STREAM_DATA_BLOCKED frame", "caught as built"),
    "C17-w3b": ("quic_dissector.py: Version Negotiation branch sets total_packet_len = 0 (endless loop)",
                "a Version Negotiation datagram",
                "first evaluation had to be aborted (thousands of executions each waiting for the watchdog) -> the harness cuts a case short after 2 "
                "non-terminating executions and reports execution_does_not_terminate"),
    "C18-w3a": ("quic_tls_parser.py: CRYPTO frame buffers are module-level lists shared by all sessions (shallow copy)",
                "an earlier run that leaves a CRYPTO frame unconsumed (duplicated Initial), then any QUIC capture",
                "missed at first -> C18 corpus entry quic_dup_initial"),
    "C18-w3b": ("quic_dissector.py: Version Negotiation packets lose their timestamp; dpkt substitutes time.time()",
                "a Version Negotiation datagram and -a",
                "missed at first -> C18 corpus entry quic_vn and runs with -a"),
}


def main():
    first = json.load(open(os.path.join(VERIF, "seeded", "wave3_first_contact.json")))
    for sid, (change, needs, hist) in W3.items():
        p = os.path.join(VERIF, "seeded", sid, "meta.json")
        if not os.path.exists(p):
            print("missing", sid)
            continue
        m = json.load(open(p))
        m.update({"breaks_property": sid[:3], "change": change, "needs_to_manifest": needs, "detection_history": hist,
                  "caught_by_at_first_contact": first.get(sid, {}).get("caught_by_at_first_contact"),
                  "what_was_run": [
                      f"git apply seeded/{sid}/patch.diff in a scratch worktree of /repo (outside /repo and /verif)",
                      "/venv/bin/python -m pytest -q -p no:cacheprovider (60 pass, only test_all::testrun fails as on the unchanged tree)",
                      "demo.py with the patch (non-zero) and without (zero)",
                      "TLEXPORT_SRC=<worktree> ./check <ID> --tier quick for the checks listed under 'checks'"]})
        json.dump(m, open(p, "w"), indent=1)
    print("ok")


if __name__ == "__main__":
    main()
