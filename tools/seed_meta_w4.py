#!/venv/bin/python
"""Descriptive fields for the meta.json files of the fourth wave of deliberately broken trees (see seed_meta_w3.py)."""
import os
import json

VERIF = os.path.dirname(os.path.dirname(os.path.abspath(__file__)))

W4 = {
    "C01-w4a": ("key_derivator.py: key block (SSL 3.0 - TLS 1.2) cached per master secret",
                "a full handshake and a resumption of it in one run",
                "caught as built by C04 (relation resumed_session, added after wave 3); C01 itself holds one connection per capture"),
    "C01-w4b": ("decryptor.py: TLS 1.2 AEAD nonce rebuilt from the sequence number instead of the explicit part of the record",
                "a peer whose explicit nonce is not the sequence number",
                "caught as built by C01 (fin_first_byte, added after wave 3); the explicit-nonce policy (random / counter from 1 / high bits) is now a dimension of layer A for every GCM/CCM suite"),
    "C02-w4a": ("quic_tls_parser.py: CRYPTO frame buffers at class level", "a retransmitted ClientHello/ServerHello, then another connection",
                "caught as built by C04 and C18 (corpus entry quic_dup_initial, added after wave 3); C02 holds one connection per capture"),
    "C02-w4b": ("quic_session.py: 0-RTT and 1-RTT get packet-number spaces of their own (two cooperating sites)",
                "0-RTT, packet numbers >= 256, a short encoding on the first 1-RTT packet",
                "caught as built by C16 (space map from RFC 9000 12.3, added after wave 3)"),
    "C03-w4a": ("session.py: the ServerHello handler's except clause narrowed to four exception types",
                "a bit flip in the ServerHello version / a TLS 1.3 key log lacking one traffic secret", "caught as built"),
    "C03-w4b": ("quic_session.py: the Retry branch calls reset(), which re-creates the CID sets as lists",
                "any datagram that parses as a Retry", "caught as built (C03 inject_long, C02 retry)"),
    "C04-w4a": ("main.py: QUIC dispatch prefers a connection-ID match over the addresses", "two connections that know the same connection ID",
                "caught as built"),
    "C04-w4b": ("packet.py: addresses stored as integers (the address family is lost)", "a.b.c.d:p -> e.f.g.h:443 next to [::a.b.c.d]:p -> [::e.f.g.h]:443",
                "missed at first -> C04 relation v4_and_numerically_equal_v6"),
    "C05-w4a": ("decryptor.py: update_keys resets both directions' sequence numbers at either Finished",
                "TLS 1.3, the client's Finished cut and its second piece captured late", "caught as built (C05, C01)"),
    "C05-w4b": ("output_builder.py: 'if part_len == 0: return'", "a record that spans more segments than it has plaintext bytes",
                "caught as built (C05 layer E with 5-byte segments, C07)"),
    "C06-w4a": ("output_builder.py: the synthetic handshake is built before the -m remap", "any -m", "caught as built (C06, C10)"),
    "C06-w4b": ("output_builder.py: IPv6 ACK of a server segment carries the server's port pair", "IPv6 with a server record", "caught as built"),
    "C07-w4a": ("session.py: a client's alert is exported server->client with -a (client records carry isserver=True)",
                "-a and an alert sent by the client",
                "missed at first -> closing alerts in the peer model; C07 layer T runs with -a and requires added material to travel in its sender's direction"),
    "C07-w4b": ("packet.py: timestamps quantised to microseconds on ingest",
                "nanosecond-resolution capture, two data-carrying QUIC datagrams of opposite directions within one microsecond",
                "missed at first -> scenarios ts=ns_close_{1,130,400} in C02's menu (used by C07/C13 too); they exposed F33 in the unchanged tree "
                "(float timestamps as datagram identity), which is repaired - after that repair this change no longer merges datagrams"),
    "C08-w4a": ("main.py: a later decryption secrets block replaces the keys of earlier ones", "two DSBs with disjoint keys, the later behind the first connection",
                "caught as built by C09 (split / per-connection DSBs); C08's captures hold no DSB"),
    "C08-w4b": ("session.py: TCP reassembly buffers at class level", "two TLS connections, the older ending with unframed segments", "caught as built (C08, C03)"),
    "C09-w4a": ("key_derivator.py: labels classified by substrings (CLIENT_EARLY_TRAFFIC_SECRET lands in the application slot)", "that line after CLIENT_TRAFFIC_SECRET_0",
                "caught as built (C09, C15; same family as C15-w3b)"),
    "C09-w4b": ("keylog_reader.py: one MULTILINE regex over the whole text ('$' does not match before \\r\\n)", "CRLF key log inside a DSB", "caught as built"),
    "C10-w4a": ("main.py: TCP sessions indexed by the client endpoint only", "two connections from one client endpoint to different server ports",
                "caught as built by C04; missed by C10 at first -> connections sharing the client endpoint in C10's capture"),
    "C10-w4b": ("main.py: -p rejects 65535 (range check off by one)", "-p 65535", "missed at first -> ports 65535 and 1 in C10's menus"),
    "C11-w4a": ("packet.py/checksums.py: pseudo header taken from the re-serialised IP packet (dpkt fills in a zero checksum field)",
                "-c and a damaged packet whose checksum field is 0x0000", "caught as built (C11 layer F)"),
    "C11-w4b": ("checksums.py: single carry fold", "-c and a correct packet whose sum needs two folds", "caught as built"),
    "C12-w4a": ("dpkt_dsb.py: if_tsoffset decoded as unsigned", "negative if_tsoffset", "caught as built"),
    "C12-w4b": ("dpkt_dsb.py: the DSB secrets type is read little-endian only", "big-endian pcapng whose keys come from a DSB",
                "missed at first -> C09 dimension container=pcapng_be, paired with every delivery"),
    "C13-w4a": ("quic_output_builder.py: the final flush takes the direction of the last buffered frame", "without -a, trailing CRYPTO frames from the other endpoint",
                "caught as built by C07 (CRYPTO-only tails); the C13 oracle compares stream data, not directions"),
    "C13-w4b": ("session.py: records of any content type other than application data are exported with -a", "a heartbeat record and -a",
                "missed at first -> trailing heartbeat record per cipher-state class and the oracle 'what -a adds is no piece of an application or other-type record'"),
    "C14-w4a": ("quic_key_generation.py: key_update uses SHA-256's length for every suite", "0x1302 and a key update", "caught as built by C15 (generations 0..3 for all suites)"),
    "C14-w4b": ("quic_session.py: cipher suite for header protection read once per datagram", "0x1303 first offered, 0-RTT coalesced behind the ClientHello", "caught as built by C02"),
    "C15-w4a": ("session.py: TLS 1.2 PRF hash SHA-256 for CBC-SHA384 suites", "a *_CBC_SHA384 suite", "caught as built (C15, C01)"),
    "C15-w4b": ("quic_key_generation.py: 0-RTT header-protection key expanded with the key label", "0-RTT packets", "caught as built (C15, C02)"),
    "C16-w4a": ("quic_dissector.py: the Token Length field of an Initial is assumed to be one byte", "an Initial with a token of >= 64 bytes",
                "missed at first -> token lengths 63/64/96/300 (Retry tokens and NEW_TOKEN tokens) in C02's menu"),
    "C16-w4b": ("quic_session.py: closed 'closest to expected' formula picks from [expected-hwin, expected+hwin)", "a packet exactly half a window ahead", "caught as built"),
    "C17-w4a": ("quic_frame.py: the 'unknown type' sentinel is set once outside the loop", "an unknown frame type after a known frame (endless loop after PADDING)", "caught as built"),
    "C17-w4b": ("quic_output_builder.py: range(0x08, 0x0f) drops STREAM type 0x0f", "STREAM frame with OFF, LEN and FIN", "caught as built by C02; the parser (C17's subject) is unaffected"),
    "C18-w4a": ("decryptor.py: CBC padding check written as an assert", "a damaged CBC record and PYTHONOPTIMIZE",
                "missed at first -> corpus entry tls12_cbc_damaged and environments with PYTHONOPTIMIZE=1/2"),
    "C18-w4b": ("main.py: sessions decrypted by a thread pool and collected in completion order when there are >= 8 of them", ">= 8 TLS connections",
                "missed at first -> corpus entry tls_nine"),
}


def main():
    first = json.load(open(os.path.join(VERIF, "seeded", "wave4_first_contact.json")))
    for sid, (change, needs, hist) in W4.items():
        p = os.path.join(VERIF, "seeded", sid, "meta.json")
        if not os.path.exists(p):
            print("missing", sid)
            continue
        m = json.load(open(p))
        m.update({"breaks_property": sid[:3], "change": change, "needs_to_manifest": needs, "detection_history": hist,
                  "caught_by_at_first_contact": first.get(sid, {}).get("caught_by_at_first_contact"),
                  "base_commit": "21112c6 (the tree before fix ab9f856)",
                  "what_was_run": [
                      f"git apply seeded/{sid}/patch.diff in a scratch worktree of /repo (outside /repo and /verif)",
                      "/venv/bin/python -m pytest -q -p no:cacheprovider (60 pass, only test_all::testrun fails as on the unchanged tree)",
                      "demo.py with the patch (non-zero) and without (zero)",
                      "TLEXPORT_SRC=<worktree> ./check <ID> --tier quick for the checks listed under 'checks'"]})
        json.dump(m, open(p, "w"), indent=1)
    print("ok")


if __name__ == "__main__":
    main()
