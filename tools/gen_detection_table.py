#!/venv/bin/python
"""Regenerates the detection table of DESIGN.md section 11.5 from seeded/*/meta.json (between the two markers)."""
import os
import re
import json

VERIF = os.path.dirname(os.path.dirname(os.path.abspath(__file__)))
BEGIN, END = "<!-- detection-table:begin -->", "<!-- detection-table:end -->"


def key(name):
    m = re.match(r"(C\d\d)-(w(\d))?([ab])", name)
    return (m.group(1), int(m.group(3) or 1), m.group(4))


def main():
    rows = []
    names = sorted((d for d in os.listdir(os.path.join(VERIF, "seeded")) if os.path.isdir(os.path.join(VERIF, "seeded", d))), key=key)
    for d in names:
        m = json.load(open(os.path.join(VERIF, "seeded", d, "meta.json")))
        caught = ", ".join(m.get("caught_by") or []) or "-"
        esc = lambda s: (s or "").replace("|", "\\|").replace("\n", " ")   # noqa
        rows.append(f"| {d} | {esc(m.get('change'))} | {esc(m.get('needs_to_manifest'))} | {caught} | {esc(m.get('detection_history'))} |")
    table = "\n".join(["| seed | change | needs to manifest | caught by | history |", "|---|---|---|---|---|"] + rows)
    p = os.path.join(VERIF, "DESIGN.md")
    s = open(p).read()
    if BEGIN in s:
        s = s[:s.index(BEGIN) + len(BEGIN)] + "\n" + table + "\n" + s[s.index(END):]
    else:
        a = s.index("| seed | change | needs to manifest | caught by | history |")
        b = s.index("\n\n", a)
        s = s[:a] + BEGIN + "\n" + table + "\n" + END + s[b:]
    open(p, "w").write(s)
    print(len(rows), "rows")


if __name__ == "__main__":
    main()
