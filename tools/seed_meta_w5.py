#!/venv/bin/python
"""Descriptive fields for the meta.json files of the fifth wave of deliberately broken trees (see seed_meta_w3.py)."""
import os
import json

VERIF = os.path.dirname(os.path.dirname(os.path.abspath(__file__)))

W5 = {
    "C01-w5a": ("session.py: the four reassembly lists become class attributes (shared by all sessions)",
                "an earlier connection that ends inside a record (capture stops during a transfer), then another connection",
                "missed at first by C01 and C04 (all their connections end on record boundaries) -> C04 relation first_ends_inside_record; C08 met it but needed minutes per case "
                "(the shared buffers grow over a case's hundreds of executions) and was stopped"),
    "C01-w5b": ("decryptor.py: block size 8 only for 3DES (IDEA forgotten) on the explicit-IV path", "IDEA-CBC under TLS 1.1/1.2", "caught as built (C01 layer A)"),
    "C02-w5a": ("quic_tls_parser.py: when a buffered CRYPTO frame is drained the offset advances by the wrong frame's length",
                "ClientHello in >= 3 CRYPTO frames of unequal length, arriving 1,0,2 / 1,2,0 / 2,1,0", "caught as built (ch_split permutations)"),
    "C02-w5b": ("main.py + quic_session.py: cached list of connection-ID lengths not invalidated by NEW_CONNECTION_ID",
                "a new connection ID of a length not seen in the handshake, and the peer switching to it", "caught as built (ncid lengths)"),
    "C03-w5a": ("session.py: the alert level is read by decrypting the alert outside any try/except", "a victim with a wrong secret or a flipped bit and an encrypted closing alert",
                "caught as built (an alert record replaces records in C03's record family); victims now also end with closing alerts"),
    "C03-w5b": ("quic_session.py: the original DCID is retired with set.remove at the server's first Initial",
                "the client's first Initial missing from the capture", "caught as built (delete / cut_before faults)"),
    "C04-w5a": ("keylog_reader.py + sessions: key-log index built once at the first look-up", "keys in DSBs, a QUIC ClientHello before a later DSB",
                "caught as built by C09 (per-connection DSBs); C04's captures carry no DSB"),
    "C04-w5b": ("checksums.py: pseudo-header cache keyed without the protocol number", "-c, TCP and UDP between the same hosts with equal transport length",
                "caught as built by C11 (TCP and UDP between the same hosts in layer P); layer F now also interleaves equal-length packets of the other protocol"),
    "C05-w5a": ("session.py: both directions share one set of seen sequence numbers", "client and server segments with numerically equal sequence numbers (same ISN)",
                "missed at first -> equal initial sequence numbers in C05 layer E"),
    "C05-w5b": ("output_builder.py: the pieces of a record are sorted by timestamp before they are emitted", "a record spanning segments that were captured out of order",
                "missed at first (C05's transpositions moved whole-record segments) -> transpositions inside multi-segment records (mss 150)"),
    "C06-w5a": ("main.py: output file opened without O_TRUNC", "a longer file already at the output path", "caught as built by C18 (stale output files)"),
    "C06-w5b": ("session.py: matches_session compares a normalised flow tuple (splits a connection whose two ports are both configured)",
                "client port 44330 to server port 443 with -a",
                "missed at first; reading it exposed F34 in the unchanged tree (such a connection was not exported at all) -> repaired; C06 and C10 now hold connections from client port 44330"),
    "C07-w5a": ("output_builder.py: the sending side is chosen by comparing the source port with the MAPPED server port", "-m mapping the server port to the client's own port number",
                "missed at first -> such pairs in C10's -m menu (C07 runs without -m)"),
    "C07-w5b": ("dpkt_dsb.py: if_tsresol high-bit test on a signed byte (never true)", "power-of-two if_tsresol", "caught as built by C12"),
    "C08-w5a": ("session.py + main.py: CBC errors escape the per-record guard and discard the whole session's output", "a later application record that is no whole number of blocks",
                "missed at first -> C08 shape garbage_tail"),
    "C08-w5b": ("session.py: a hole is skipped unless the missing sequence number occurs somewhere in the whole capture (look-ahead)",
                "two whole-record segments captured in swapped order, cut between them",
                "missed at first (C05's quick streams had at most two distinct records) -> 3-record stream in C05 layer B, C08 shape swapped_records"),
    "C09-w5a": ("dpkt_dsb.py: consecutive DSBs are flushed only before the next packet block", "a DSB after the last packet", "caught as built (DSB at every position)"),
    "C09-w5b": ("keylog_reader.py: chunked file reading carries over the wrong slice", "a key-log file > 128 KiB with a needed line across offset 131072",
                "missed at first -> long key logs with this capture's lines across 4096 ... 262144 (file and DSB)"),
    "C10-w5a": ("main.py: -m arguments re-split at commas, 'break' at an empty piece", "a comma after a pair that is not the last", "caught as built"),
    "C10-w5b": ("quic_session.py: the port map is filtered to the configured server ports", "QUIC to an unconfigured port listed in -m", "caught as built"),
    "C11-w5a": ("main.py: 'and' / 'or' precedence lets -g override the checksum verdict for UDP", "-c with -g and a datagram with a wrong checksum",
                "missed at first -> a third of C11's corruption subsets run with -c -g"),
    "C11-w5b": ("checksums.py: receiver-style verification accepts the other representation of zero", "field 0xffff when the computed TCP checksum is 0x0000 (UDP: field 0x0000 for 0xffff)",
                "outside the claimed dichotomy: such a packet passes the RFC 1071 receiver test, C11 does not generate it (stated assumption)"),
    "C12-w5a": ("main.py: no TCP session is created while the key log is still empty", "DSB after the ClientHello packet, no -s", "caught as built by C09 (DSB at every position)"),
    "C12-w5b": ("keylog_reader.py + main.py: text after the last newline of a DSB is carried to the next DSB and never flushed", "DSB text without final newline",
                "caught as built by C09 (no_final_newline x DSB deliveries)"),
    "C13-w5a": ("session.py: with -a an encrypted handshake record that is no Finished closes the session", "HelloRequest in mid-stream and -a",
                "missed at first -> HelloRequest records in C13's histories (TLS <= 1.2)"),
    "C13-w5b": ("quic_output_builder.py + main.py: bytearray += () raises for a Version Negotiation pseudo frame, swallowed per session", "a Version Negotiation datagram and -a",
                "missed at first -> Version Negotiation as a dimension of the QUIC menu (C02, C07, C13)"),
    "C14-w5a": ("cipher_suite_parser.py: the default hash lives in a shared dict that earlier results write to", "a hash-less CCM name resolved after a SHA-384 name", "caught as built (the sweep visits code points in order)"),
    "C14-w5b": ("key_derivator.py: HKDF label cache keyed by the label only (keeps the first key length)", "two TLS 1.3 connections with different key lengths in one run",
                "missed at first -> every ordered pair of different TLS 1.3 suites in one run (C15)"),
    "C15-w5a": ("session.py: a TLS 1.3 Finished is only recognised as the first message of its record", "several handshake messages in one record", "caught as built by C01 (default server flight is one record)"),
    "C15-w5b": ("key_derivator.py: TLS 1.2 P_hash output cached per master secret", "resumed session", "caught as built by C04 (resumed_session)"),
    "C16-w5a": ("quic_session.py + main.py: cached, sorted connection IDs not invalidated by NEW_CONNECTION_ID", "short-header packets on a newly issued ID", "caught as built by C02"),
    "C16-w5b": ("quic_session.py: largest packet number reset at a key update", "key update at packet numbers >= 256 sent in one byte",
                "missed at first -> C16 layer N flips the key phase on a one-byte packet number at every base value"),
    "C17-w5a": ("quic_frame.py: PADDING length counted with strip() (both ends)", "PADDING in mid-packet and a packet ending in zero bytes", "caught as built (C17, C02)"),
    "C17-w5b": ("quic_session.py: frames behind a CONNECTION_CLOSE are not handled", "CONNECTION_CLOSE followed by STREAM frames in one packet",
                "missed at first (the parser, C17's subject, is unaffected) -> CONNECTION_CLOSE in front of STREAM in C02's frame menu"),
    "C18-w5a": ("quic_session.py: a status line with the ALPN name is printed inside a try whose except swallows UnicodeEncodeError", "non-ASCII ALPN name, non-UTF-8 stdout encoding, -a",
                "missed at first -> corpus entry quic_alpn_bytes, environments with PYTHONIOENCODING"),
    "C18-w5b": ("main.py: module state reset moved from the start of run() to its end", "an earlier run in the same interpreter that aborted",
                "missed at first -> aborting first runs (cut file / no capture) in C18's pairs"),
}


def main():
    first = json.load(open(os.path.join(VERIF, "seeded", "wave5_first_contact.json")))
    for sid, (change, needs, hist) in W5.items():
        p = os.path.join(VERIF, "seeded", sid, "meta.json")
        if not os.path.exists(p):
            print("missing", sid)
            continue
        m = json.load(open(p))
        m.update({"breaks_property": sid[:3], "change": change, "needs_to_manifest": needs, "detection_history": hist,
                  "caught_by_at_first_contact": first.get(sid, {}).get("caught_by_at_first_contact"),
                  "base_commit": "written against ab9f856; re-evaluated on 3307761 (after fix F34)",
                  "what_was_run": [
                      f"git apply seeded/{sid}/patch.diff in a scratch worktree of /repo (outside /repo and /verif)",
                      "/venv/bin/python -m pytest -q -p no:cacheprovider (60 pass, only test_all::testrun fails as on the unchanged tree)",
                      "demo.py with the patch (non-zero) and without (zero)",
                      "TLEXPORT_SRC=<worktree> ./check <ID> --tier quick for the checks listed under 'checks'"]})
        json.dump(m, open(p, "w"), indent=1)
    print("ok")


if __name__ == "__main__":
    main()
